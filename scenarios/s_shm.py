"""S-SHM: billiard.sharedctypes (RawValue/RawArray/Value/Array/synchronized, reduce_ctype/
rebuild_ctype) over billiard.heap (BufferWrapper, reduce_arena/rebuild_arena), running for
real on the simulated SemLock, the simulated heap lock and fake arenas.  Serves C15.

Parent threads create / write / read / drop shared objects (storage is dirtied before a drop
and recycled by later objects), hand copies to "child processes" through the real pickling
path, and run concurrent locked read-modify-write loops from threads and processes."""
import ctypes
import pickle
import weakref

from .common import SimContext, dump_for_child, new_kernel, finish, V, POLICIES, state, seams  # noqa: F401
from .s_heap import HeapMonitor
from simos import seams_heap as SH

RUNS_PER_FORK = 15
COMPONENTS = {
    'real': ['billiard/sharedctypes.py: RawValue, RawArray, Value, Array, synchronized, Synchronized*, '
             'make_property template, reduce_ctype, rebuild_ctype, _new_value',
             'billiard/heap.py: BufferWrapper, Heap (whole allocator), reduce_arena, rebuild_arena',
             'billiard/synchronize.py RLock/Lock (the objects\' locks), billiard/context.py factories, '
             'billiard/reduction.py ForkingPickler/DupFd under the spawning context',
             'ctypes (from_buffer / memset / __init__) and multiprocessing.util.Finalize'],
    'stub': ['_multiprocessing.SemLock -> simos.objects.SimSemLock; threading.Lock of the heap -> SimLock',
             'heap.Arena -> simos.seams_heap.FakeArena: a zero-filled bytearray; Arena(size, fd) in a "child" maps '
             'the SAME buffer again (what MAP_SHARED over the inherited descriptor provides)',
             'processes -> simulated process table; a child works on copies made by pickle.loads of the bytes the '
             'real reduction.dump produced under the spawning context'],
}
ASSUMPTIONS = [
    'the kernel keeps MAP_SHARED pages coherent between real processes (modelled by sharing one buffer)',
    'a single ctypes load/store of one element is atomic (no pre-emption inside one C call)',
    'a shared object is kept referenced by its creator while any child still uses a copy',
    "type codes 'q'/'Q' are not in this billiard's typecode_to_type; c_longlong/c_ulonglong are passed as types",
    'unlocked `v.value += 1` is not required to be atomic and is not checked',
]
RULE = ('case = (1-3 parent thread programs of new(api,type,length|initialiser,lock kind)/write/read/drop/'
        'child-round-trip ops over all type codes, two structures and arrays by length and by initialiser; 0-2 shared '
        'tests: k threads+processes x N locked increments, or locked two-step updates vs plain setters vs readers; '
        'arena failure plan; probability of a GC drop while the heap lock is held) drawn from the seed; one run = '
        'one seeded schedule. distinct = distinct (workload hash, schedule fingerprint); non-trivial = a fresh '
        'object was checked on recycled dirty storage, or a copy crossed the pickling path, or a lock was contended')
PROBES = ['fresh_object_checked', 'fresh_on_recycled_dirty_storage', 'child_copy_made', 'parent_write_seen_by_child',
          'child_write_seen_by_parent', 'copy_write_seen_by_copy', 'counter_finished', 'counter_with_processes',
          'sem_blocked', 'rmw_critical_sections', 'rmw_reader_reads', 'rmw_plain_writes', 'isolation_sweeps',
          'gc_reentrant_free', 'deferred_free', 'deferred_processed_by_malloc', 'deferred_processed_by_free',
          'arena_growth', 'arena_alloc_failed', 'reused_block', 'merge_prev', 'merge_next', 'merge_both',
          'exact_fit', 'split', 'struct_object', 'array_by_initializer', 'array_by_length', 'zero_length_array',
          'synchronized_object', 'raw_object', 'arena_rebuilt_in_child', 'forked_under_lock',
          'after_fork_hook_ran']


class Point(ctypes.Structure):          # has padding (1 + 7 pad + 8 + 4 + 4 pad = 24 bytes)
    _fields_ = [('a', ctypes.c_byte), ('b', ctypes.c_double), ('c', ctypes.c_int)]


class Pair(ctypes.Structure):
    _fields_ = [('x', ctypes.c_int), ('y', ctypes.c_longlong)]


CT = {'c': ctypes.c_char, 'u': ctypes.c_wchar, 'b': ctypes.c_byte, 'B': ctypes.c_ubyte, 'h': ctypes.c_short,
      'H': ctypes.c_ushort, 'i': ctypes.c_int, 'I': ctypes.c_uint, 'l': ctypes.c_long, 'L': ctypes.c_ulong,
      'q': ctypes.c_longlong, 'Q': ctypes.c_ulonglong, 'f': ctypes.c_float, 'd': ctypes.c_double,
      'Point': Point, 'Pair': Pair}
SIGNED = 'bhilq'
CODES = ['c', 'u', 'b', 'B', 'h', 'H', 'i', 'I', 'l', 'L', 'q', 'Q', 'f', 'd']
STRUCTS = {'Point': [('a', 'b'), ('b', 'd'), ('c', 'i')], 'Pair': [('x', 'i'), ('y', 'q')]}
NUMERIC = ['b', 'B', 'h', 'H', 'i', 'I', 'l', 'L', 'q', 'Q', 'f', 'd']
WIDE = ['h', 'i', 'l', 'q', 'I', 'Q', 'd']          # enough distinct values for the rmw test


def mk(code, n):
    """The n-th test value of a type (deterministic, in range, exactly representable)."""
    if code == 'c':
        return bytes([(n * 37 + 1) % 256])
    if code == 'u':
        return chr(0x41 + (n * 7) % 0x400)
    if code == 'f':
        return float((n * 31) % 65536) + 0.5
    if code == 'd':
        return float(n * 1000003 % (1 << 40)) + 0.25
    if code in STRUCTS:
        return tuple(mk(c, n + i) for i, (_f, c) in enumerate(STRUCTS[code]))
    bits = 8 * ctypes.sizeof(CT[code])
    span = 1 << bits
    r = n % 7
    if r == 0:
        v = span - 1 - (n // 7) % 251           # the top of the unsigned range / -1, -2, ... when signed
    elif r == 1:
        v = (span >> 1) + (n // 7) % 251        # just above the sign bit / the most negative values
    else:
        v = (n * 2654435761 + 12345) % span
    return v - (1 << (bits - 1)) if code in SIGNED else v


def type_arg(code):
    """What the user passes as typecode_or_type."""
    import billiard.sharedctypes as S
    return code if code in S.typecode_to_type else CT[code]


# ---------------------------------------------------------------------- generic access (works on shared
# raw objects, synchronized wrappers and plain ctypes models alike)
def shape_of(spec):
    if spec['len'] is not None:
        return 'chars' if spec['type'] == 'c' else 'array'
    return 'struct' if spec['type'] in STRUCTS else 'simple'


def do_write(o, spec, w):
    kind = w[0]
    code = spec['type']
    if kind == 'value':
        o.value = mk(code, w[1])
    elif kind == 'item':
        v = mk(code, w[2])
        if code in STRUCTS:
            v = CT[code](*v)
        o[w[1]] = v
    elif kind == 'slice':
        n = spec['len']
        vals = [mk(code, w[1] + i) for i in range(n)]
        if code == 'c':
            o[0:n] = b''.join(vals)
        elif code == 'u':
            o[0:n] = ''.join(vals)
        elif code in STRUCTS:
            for i, v in enumerate(vals):
                o[i] = CT[code](*v)
        else:
            o[0:n] = vals
    elif kind == 'raw':
        n = spec['len']
        o.raw = bytes((w[1] * 13 + i * 7 + 1) % 256 for i in range(n))
    elif kind == 'field':
        fname, fcode = STRUCTS[code][w[1]]
        setattr(o, fname, mk(fcode, w[2]))
    else:
        raise ValueError(kind)


def snapshot(o, spec):
    """Read everything through the object's API."""
    sh = shape_of(spec)
    code = spec['type']
    if sh == 'simple':
        return o.value
    if sh == 'struct':
        return tuple(getattr(o, f) for f, _c in STRUCTS[code])
    n = spec['len']
    if code in STRUCTS:
        return [tuple(getattr(o[i], f) for f, _c in STRUCTS[code]) for i in range(n)]
    if sh == 'chars':
        return o.raw if hasattr(o, 'raw') else bytes(o[0:n])
    v = o[0:n]
    return v if isinstance(v, str) else list(v)


def raw_of(o):
    return o.get_obj() if hasattr(o, 'get_obj') else o


def raw_bytes(o):
    return bytes(raw_of(o))


def make_model(spec):
    t = CT[spec['type']]
    if spec['len'] is not None:
        at = t * spec['len']
        if spec['by'] == 'init':
            return at(*init_list(spec))
        return at()
    return t(*init_args(spec))


def init_args(spec):
    if spec['init'] is None:
        return ()
    v = mk(spec['type'], spec['init'])
    if spec['type'] in STRUCTS:
        return v[:spec.get('nargs', len(v))]
    return (v,)


def init_list(spec):
    code = spec['type']
    out = [mk(code, spec['init'] + i) for i in range(spec['len'])]
    return out


def create(ctx, spec):
    ta = type_arg(spec['type'])
    api = spec['api']
    lock = spec.get('lock', True)
    if lock == 'rlock':
        lock = ctx.RLock()
    elif lock == 'lock':
        lock = ctx.Lock()
    if spec['len'] is not None:
        arg = spec['len']
        if spec['by'] == 'init':
            arg = init_list(spec)
            if spec['type'] == 'c' and spec.get('init_as_bytes'):
                arg = b''.join(arg)
        if api == 'RawArray':
            return ctx.RawArray(ta, arg)
        return ctx.Array(ta, arg, lock=lock)
    if api == 'RawValue':
        return ctx.RawValue(ta, *init_args(spec))
    return ctx.Value(ta, *init_args(spec), lock=lock)


# ====================================================================== generation
def gen_spec(rng, for_shared=None):
    if for_shared == 'counter':
        code = rng.choice(['b', 'B', 'h', 'i', 'I', 'l', 'L', 'q', 'Q', 'f', 'd', 'Pair'])
        form = rng.choice(['value', 'value', 'array']) if code != 'Pair' else 'value'
        return {'api': 'Array' if form == 'array' else 'Value', 'type': code,
                'len': rng.randint(1, 3) if form == 'array' else None, 'by': 'len', 'init': None,
                'lock': rng.choice([True, True, 'rlock'])}
    if for_shared == 'rmw':
        code = rng.choice(WIDE + ['Pair', 'c', 'c'])
        form = rng.choice(['value', 'value', 'array']) if code not in ('Pair', 'c') else \
            ('array' if code == 'c' else 'value')       # (char arrays get a wrapper class of their own)
        return {'api': 'Array' if form == 'array' else 'Value', 'type': code,
                'len': rng.randint(1, 3) if form == 'array' else None, 'by': 'len', 'init': None,
                'lock': rng.choice([True, 'rlock'])}
    code = rng.choice(CODES + ['Point', 'Pair', 'i', 'd', 'c'])
    isarr = rng.random() < 0.45
    sync = rng.random() < 0.5
    spec = {'type': code, 'len': None, 'by': 'len', 'init': None}
    if isarr:
        spec['api'] = 'Array' if sync else 'RawArray'
        r = rng.random()
        spec['len'] = 0 if r < 0.06 else rng.choice([1, 2, 3, 5, 8, 17, 64]) if r < 0.93 else rng.choice([600, 1100])
        if rng.random() < 0.5:
            spec['by'] = 'init'
            spec['init'] = rng.randint(1, 10 ** 6)
            if code == 'c':
                spec['init_as_bytes'] = rng.random() < 0.5
    else:
        spec['api'] = 'Value' if sync else 'RawValue'
        if rng.random() < 0.6:
            spec['init'] = rng.randint(1, 10 ** 6)
            if code in STRUCTS:
                spec['nargs'] = rng.randint(0, len(STRUCTS[code]))
    if sync:
        spec['lock'] = rng.choice([True, True, 'rlock', 'lock', False])
    return spec


def gen_write(rng, spec):
    sh = shape_of(spec)
    n = rng.randint(1, 10 ** 6)
    if sh == 'simple':
        return ['value', n]
    if sh == 'struct':
        return ['field', rng.randrange(len(STRUCTS[spec['type']])), n]
    ln = spec['len']
    if ln == 0:
        return None
    if sh == 'chars' and rng.random() < 0.4:
        return ['raw', n]
    if rng.random() < 0.5:
        return ['item', rng.randrange(ln), n]
    return ['slice', n]


def generate(rng, tier, prop='C15'):
    nthr = rng.choice([1, 2, 2, 3])
    maxops = 26 if tier == 'thorough' else 14
    threads = []
    for t in range(nthr):
        live = {}
        nslot = 0
        prog = []
        for _ in range(rng.randint(3, maxops)):
            r = rng.random()
            if r < 0.38 or not live:
                if live and rng.random() < 0.15:
                    slot = rng.choice(sorted(live))
                else:
                    slot = nslot
                    nslot += 1
                spec = gen_spec(rng)
                live[slot] = spec
                prog.append(['new', slot, spec])
            elif r < 0.60:
                slot = rng.choice(sorted(live))
                w = gen_write(rng, live[slot])
                if w is not None:
                    prog.append(['write', slot, w])
            elif r < 0.70:
                prog.append(['read', rng.choice(sorted(live))])
            elif r < 0.88:
                slot = rng.choice(sorted(live))
                del live[slot]
                prog.append(['drop', slot])
            elif r < 0.97:
                slot = rng.choice(sorted(live))
                w1 = gen_write(rng, live[slot])
                w2 = gen_write(rng, live[slot])
                if w1 is not None:
                    prog.append(['child', slot, w1, w2, rng.random() < 0.4])
            else:
                prog.append(['yield'])
        threads.append(prog)
    shared = []
    for _ in range(rng.choice([0, 1, 1, 2])):
        if rng.random() < 0.5:
            spec = gen_spec(rng, 'counter')
            small = spec['type'] in ('b', 'B')
            parts = [rng.choice('TP') for _ in range(rng.randint(2, 4))]
            shared.append({'kind': 'counter', 'spec': spec, 'parts': parts, 'n': rng.randint(1, 4 if small else 6),
                           'elem': rng.randrange(spec['len']) if spec['len'] else 0})
        elif rng.random() < 0.3:
            # fork start method: a child forked by a thread that is inside `with obj.get_lock():` inherits the
            # lock object as it is at that moment (held, by "itself"); it must still be excluded
            spec = gen_spec(rng, 'counter')
            shared.append({'kind': 'forklock', 'spec': spec, 'n': rng.randint(1, 3),
                           'elem': rng.randrange(spec['len']) if spec['len'] else 0})
        else:
            spec = gen_spec(rng, 'rmw')
            parts = [rng.choice(['uT', 'uP', 'wT', 'wP', 'rT', 'rP']) for _ in range(rng.randint(2, 4))]
            if not any(p[0] == 'u' for p in parts):
                parts[0] = 'u' + parts[0][1]
            shared.append({'kind': 'rmw', 'spec': spec, 'parts': parts, 'n': rng.randint(1, 4),
                           'elem': rng.randrange(spec['len']) if spec['len'] else 0, 'base': rng.randint(1, 10 ** 5)})
    fail = {}
    if rng.random() < 0.15:
        fail[str(rng.randint(1, 3))] = rng.choice(['ENOSPC', 'MemoryError'])
    return {'policy': rng.choice(POLICIES), 'heap_size': rng.choice([1, 4096, 4096, 8192]), 'threads': threads,
            'shared': shared, 'arena_fail': fail, 'reent': rng.choice([0, 0, 0.1, 0.3])}


def shrink(case):
    thr = case['threads']
    if case['shared']:
        for i in range(len(case['shared'])):
            c = dict(case)
            c['shared'] = case['shared'][:i] + case['shared'][i + 1:]
            yield c
    if len(thr) > 1 or (thr and case['shared']):
        for i in range(len(thr)):
            c = dict(case)
            c['threads'] = thr[:i] + thr[i + 1:]
            yield c
    for i, p in enumerate(thr):
        for j in range(len(p)):
            c = dict(case)
            c['threads'] = [list(q) for q in thr]
            del c['threads'][i][j]
            yield c
    for key, val in (('arena_fail', {}), ('reent', 0), ('heap_size', 4096), ('policy', 'fifo')):
        if case.get(key) != val:
            c = dict(case)
            c[key] = val
            yield c
    for i, sh in enumerate(case['shared']):
        if len(sh.get('parts', ())) > 1:
            for j in range(len(sh['parts'])):
                c = dict(case)
                c['shared'] = [dict(s) for s in case['shared']]
                c['shared'][i]['parts'] = sh['parts'][:j] + sh['parts'][j + 1:]
                yield c
        if sh['n'] > 1:
            c = dict(case)
            c['shared'] = [dict(s) for s in case['shared']]
            c['shared'][i]['n'] = sh['n'] - 1
            yield c


# ====================================================================== execution
def execute(case, seed, choices=None):
    k = new_kernel(seed, {'policy': case.get('policy', 'random'), 'horizon': 200.0, 'max_steps': 1500000,
                          'log_cap': 20000}, choices)
    seams.install_sync()
    SH.install_heap()
    ctx = SimContext()

    class ForkContext(SimContext):
        _name = 'fork'

        def get_start_method(self, allow_none=False):
            return 'fork'
    fork_ctx = ForkContext()
    world = SH.ArenaWorld(k, case.get('arena_fail') or {})
    heap = SH.new_heap(case['heap_size'])
    mon = HeapMonitor(k, heap, world, 'C15.heap', reent=case.get('reent', 0))
    old_heap = SH.set_wrapper_heap(heap)
    viol = []
    seen = set()
    nthr = len(case['threads'])
    nshared = len(case['shared'])
    slots = [dict() for _ in range(nthr + nshared)]     # per parent thread: slot -> record
    actor_index = {}
    dirty = []                                          # (arena idx, start, stop) dirtied before a drop

    def bad(clause, sig, detail):
        if (clause, sig) in seen:
            return
        seen.add((clause, sig))
        viol.append(V('C15.' + clause, sig, detail))
        k.record('violation', clause, sig)

    def describe(spec):
        return '%s(%s%s)' % (spec['api'], spec['type'], '' if spec['len'] is None else '*%d' % spec['len'])

    # ------------------------------------------------------------------ object life cycle
    def new_object(ti, slot, spec, pinned=False, use_ctx=None):
        mon.begin_malloc()
        f0 = world.failed
        try:
            obj = create(use_ctx or ctx, spec)
        except (OSError, MemoryError) as exc:
            mon.malloc_failed()
            if world.failed == f0:
                raise
            k.record('new-failed', ti, slot, type(exc).__name__)
            lk = heap._lock
            if lk._locked and lk._owner is k.cur():
                bad('g', 'heap-lock-held-after-failed-creation', describe(spec))
            return None
        raw = raw_of(obj)
        wrapper = raw._wrapper
        block, size = wrapper._state
        rec = {'obj': obj, 'spec': spec, 'model': make_model(spec), 'ti': ti, 'busy': 0, 'pinned': pinned,
               'wr': weakref.ref(wrapper)}
        mon.end_malloc(block, size, rec)
        del raw, wrapper
        slots[ti][slot] = rec
        k.record('new', ti, slot, describe(spec), mon.fmt(block))
        k.probe('synchronized_object' if hasattr(obj, 'get_obj') else 'raw_object')
        if spec['type'] in STRUCTS:
            k.probe('struct_object')
        if spec['len'] is not None:
            k.probe('array_by_initializer' if spec['by'] == 'init' else 'array_by_length')
            if spec['len'] == 0:
                k.probe('zero_length_array')
        # --- fresh object holds exactly its initial value (zeros when none given)
        recycled = any(a == block[0].idx and s < block[1] + size and block[1] < e for a, s, e in dirty)
        k.probe('fresh_object_checked')
        if recycled:
            k.probe('fresh_on_recycled_dirty_storage')
        if ctypes.sizeof(raw_of(obj)) != ctypes.sizeof(rec['model']):
            bad('init', 'fresh-object-wrong-size:%s' % spec['api'], describe(spec))
        elif raw_bytes(obj) != bytes(rec['model']) or snapshot(obj, spec) != snapshot(rec['model'], spec):
            how = 'no-initialiser' if spec['init'] is None else 'initialiser'
            bad('init', 'fresh-object-not-initial-value:%s:%s' % (spec['api'], how),
                '%s on %s storage reads %r, expected %r' % (describe(spec), 'recycled' if recycled else 'fresh',
                                                            snapshot(obj, spec), snapshot(rec['model'], spec)))
            resync(rec)
        return rec

    def resync(rec):
        """After a reported mismatch: make the model follow the object so one defect is reported once."""
        m = rec['model']
        ctypes.memmove(ctypes.addressof(m), raw_bytes(rec['obj']), ctypes.sizeof(m))

    def drop_object(ti, slot, reentrant=False):
        rec = slots[ti].pop(slot)
        check_rec(rec, 'before-drop')
        raw = raw_of(rec['obj'])
        n = ctypes.sizeof(raw)
        block = rec['block']
        if n:
            ctypes.memset(ctypes.addressof(raw), 0xA5, n)       # leave the storage dirty
            dirty.append((block[0].idx, block[1], block[1] + n))
            if len(dirty) > 300:
                del dirty[:150]
        del raw
        mon.begin_free(rec)
        rec.pop('obj')
        rec.pop('model')                    # last references: Finalize -> heap.free(block) runs right here
        if rec['wr']() is not None:
            raise RuntimeError('harness keeps a reference to a dropped shared object')
        deferred = any(b == block for b in heap._pending_free_blocks)
        mon.end_free(rec)
        k.record('drop', ti, slot, mon.fmt(block), deferred, reentrant)
        if reentrant and not deferred:
            bad('heap.h', 'reentrant-free-not-deferred', 'drop while the heap lock is held by the same thread')

    def gc_hook(where):
        ti = actor_index.get(k.cur().name)
        if ti is None:
            return
        cands = [s for s in sorted(slots[ti]) if not slots[ti][s]['busy'] and not slots[ti][s]['pinned']]
        if not cands:
            return
        slot = cands[k.choose(len(cands), 'gc-victim')]
        k.probe('gc_reentrant_free')
        drop_object(ti, slot, reentrant=True)

    mon.gc_hook = gc_hook

    # ------------------------------------------------------------------ checks
    def check_rec(rec, when, via_api=True):
        obj, spec, model = rec['obj'], rec['spec'], rec['model']
        if raw_bytes(obj) != bytes(model):
            bad('iso', 'object-changed-without-write:%s' % spec['api'],
                '%s: %s holds %r, its owner wrote %r' % (when, describe(spec), snapshot(raw_of(obj), spec),
                                                         snapshot(model, spec)))
            resync(rec)
        elif via_api and snapshot(obj, spec) != snapshot(model, spec):
            bad('rw', 'api-read-differs-from-memory:%s' % spec['api'], '%s: %s' % (when, describe(spec)))

    def sweep(when):
        """Every live, quiescent object still equals its model (raw memory read: atomic)."""
        k.probe('isolation_sweeps')
        for sl in slots:
            for slot in sorted(sl):
                rec = sl[slot]
                if not rec['busy'] and not rec['pinned'] and 'obj' in rec:
                    check_rec(rec, when, via_api=False)

    def write_object(rec, w):
        rec['busy'] += 1
        try:
            do_write(rec['obj'], rec['spec'], w)
            do_write(rec['model'], rec['spec'], w)
        finally:
            rec['busy'] -= 1
        k.record('write', rec['ti'], rec['uid'], w[0])

    # ------------------------------------------------------------------ child round trip
    def child_round(ti, rec, w1, w2, two):
        spec = rec['spec']
        write_object(rec, w1)
        expect1 = bytes(rec['model'])
        if w2 is not None:
            do_write(rec['model'], spec, w2)            # what the child is going to write
        expect2 = bytes(rec['model'])
        rec['busy'] += 1
        data, fds = dump_for_child(rec['obj'])
        fds = SH.real_fds(k, fds)
        flag = {'a_done': False}
        nreb0 = world.rebuilt

        def child_a():
            o = pickle.loads(data)
            k.probe('child_copy_made')
            if world.rebuilt > nreb0:
                k.probe('arena_rebuilt_in_child')
            if raw_bytes(o) != expect1:
                bad('vis', 'parent-write-not-seen-by-child:%s' % spec['api'], describe(spec))
            else:
                k.probe('parent_write_seen_by_child')
            if w2 is not None:
                do_write(o, spec, w2)
            o2 = pickle.loads(data)
            if raw_bytes(o2) != expect2 or snapshot(o2, spec) != snapshot(o, spec):
                bad('vis', 'copy-write-not-seen-by-copy:%s' % spec['api'], 'two copies in one process: ' + describe(spec))
            flag['a_done'] = True
            k.exit_now(0)

        def child_b():
            o = pickle.loads(data)
            a = k.enter('wait-sibling')
            k.wait_until(a, lambda: flag['a_done'], None, 'wait-sibling')
            if raw_bytes(o) != expect2:
                bad('vis', 'copy-write-not-seen-by-copy:%s' % spec['api'], 'sibling process: ' + describe(spec))
            else:
                k.probe('copy_write_seen_by_copy')
            k.exit_now(0)

        procs = []
        if two:
            procs.append(k.create_process('cb-', child_b, inherit_fds=fds))
        procs.append(k.create_process('ca-', child_a, inherit_fds=fds))
        for p in procs:
            k.waitpid(p.pid, 0)
        rec['busy'] -= 1
        if raw_bytes(rec['obj']) != expect2:
            bad('vis', 'child-write-not-seen-by-parent:%s' % spec['api'], describe(spec))
            resync(rec)
        else:
            k.probe('child_write_seen_by_parent')
        check_rec(rec, 'after-child')

    # ------------------------------------------------------------------ parent thread programs
    def run_prog(ti, prog):
        actor_index[k.cur().name] = ti
        for op in prog:
            kind = op[0]
            sl = slots[ti]
            if kind == 'new':
                if op[1] in sl:
                    drop_object(ti, op[1])
                new_object(ti, op[1], op[2])
            elif kind == 'write':
                rec = sl.get(op[1])
                if rec is not None and op[2] is not None and _fits(rec['spec'], op[2]):
                    write_object(rec, op[2])
                    check_rec(rec, 'after-write')
            elif kind == 'read':
                rec = sl.get(op[1])
                if rec is not None:
                    check_rec(rec, 'read')
            elif kind == 'drop':
                if op[1] in sl:
                    drop_object(ti, op[1])
            elif kind == 'child':
                rec = sl.get(op[1])
                if rec is not None and _fits(rec['spec'], op[2]) and (op[3] is None or _fits(rec['spec'], op[3])):
                    child_round(ti, rec, op[2], op[3], op[4])
            else:
                k.yield_('tick')
            sweep('after-op')
            mon.check('after-op')

    # ------------------------------------------------------------------ shared tests
    def elem_get(o, spec, elem):
        if spec['type'] == 'Pair':
            return o.x
        if spec['len'] is not None:
            return o[elem]
        return o.value

    def elem_set(o, spec, elem, v):
        if spec['type'] == 'Pair':
            o.x = v
        elif spec['len'] is not None:
            o[elem] = v
        else:
            o.value = v

    def start_parts(parts, data, fds, rec, body, tag):
        """Run body(copy-or-object, index) in threads ('T') and child processes ('P'); wait for all.
        Threads fetch the object from its record so that no closure outlives the drop."""
        acts, procs = [], []
        for i, p in enumerate(parts):
            if p[-1] == 'T':
                acts.append(k.spawn_thread(lambda i=i: body(rec['obj'], i), '%s%d' % (tag, i)))
            else:
                def main(i=i):
                    o = pickle.loads(data)
                    k.probe('child_copy_made')
                    body(o, i)
                    k.exit_now(0)
                procs.append(k.create_process('%s%d-' % (tag, i), main, inherit_fds=fds))
        for a in acts:
            k.join_actor(a)
        for p in procs:
            k.waitpid(p.pid, 0)

    def run_counter(ti, sh):
        actor_index[k.cur().name] = ti
        spec, n, elem = sh['spec'], sh['n'], sh['elem']
        rec = new_object(ti, 0, spec, pinned=True)
        if rec is None:
            return
        obj = rec['obj']
        one = 1.0 if spec['type'] in 'fd' else 1
        data, fds = dump_for_child(obj)
        fds = SH.real_fds(k, fds)

        def body(o, i):
            for _ in range(n):
                with o.get_lock():
                    cur = elem_get(o, spec, elem)
                    elem_set(o, spec, elem, cur + one)

        start_parts(sh['parts'], data, fds, rec, body, 'inc')
        total = elem_get(obj, spec, elem)
        k.probe('counter_finished')
        if 'P' in sh['parts']:
            k.probe('counter_with_processes')
        k.record('counter', ti, total)
        if total != n * len(sh['parts']):
            bad('atomic', 'lost-update:%s' % spec['api'],
                '%d participants x %d locked increments of %s ended at %r' % (len(sh['parts']), n, describe(spec), total))
        rec['pinned'] = False
        resync(rec)
        del obj
        drop_object(ti, 0)

    def run_rmw(ti, sh):
        actor_index[k.cur().name] = ti
        spec, n, elem, base = sh['spec'], sh['n'], sh['elem'], sh['base']
        code = 'i' if spec['type'] == 'Pair' else spec['type']
        rec = new_object(ti, 0, spec, pinned=True)
        if rec is None:
            return
        obj = rec['obj']
        legit = set([elem_get(obj, spec, elem)])
        mark_n = 7777777
        while mk(code, mark_n) in legit:
            mark_n += 1
        mark = mk(code, mark_n)
        counter = [0]

        def fresh_value():
            while True:
                counter[0] += 1
                v = mk(code, base + counter[0])
                if v != mark and v not in legit:
                    return v

        data, fds = dump_for_child(obj)
        fds = SH.real_fds(k, fds)

        def body(o, i):
            role = sh['parts'][i][0]
            for _ in range(n):
                if role == 'u':
                    new = fresh_value()
                    legit.add(new)
                    with o.get_lock():
                        k.probe('rmw_critical_sections')
                        elem_set(o, spec, elem, mark)
                        k.yield_('in-critical-section')
                        seen_now = elem_get(o, spec, elem)
                        if seen_now != mark:
                            bad('atomic', 'foreign-write-inside-critical-section:%s' % spec['api'],
                                '%s changed to %r while another participant held its lock' % (describe(spec), seen_now))
                        elem_set(o, spec, elem, new)
                elif role == 'w':
                    v = fresh_value()
                    legit.add(v)
                    k.probe('rmw_plain_writes')
                    elem_set(o, spec, elem, v)
                else:
                    v = elem_get(o, spec, elem)
                    k.probe('rmw_reader_reads')
                    if v == mark:
                        bad('atomic', 'reader-saw-intermediate-value:%s' % spec['api'],
                            'a read through the API returned the value a lock holder had only written provisionally')
                    elif v not in legit:
                        bad('atomic', 'read-value-never-written:%s' % spec['api'], '%r' % (v,))
                    k.yield_('reader')

        start_parts(sh['parts'], data, fds, rec, body, 'rmw')
        final = elem_get(obj, spec, elem)
        k.record('rmw', ti, final)
        if final == mark or final not in legit:
            bad('atomic', 'final-value-never-committed:%s' % spec['api'], '%r' % (final,))
        rec['pinned'] = False
        resync(rec)
        del obj
        drop_object(ti, 0)

    def run_forklock(ti, sh):
        """What os.fork() does to a shared object whose lock the forking thread holds: the child's copy of
        the lock handle has the parent's recursion count and "owner" (the forking thread is the child's main
        thread), then the hooks registered with register_after_fork run on it.  Parent and child both do
        locked read-modify-write sequences; none may be lost."""
        import copy
        import multiprocessing.util as mpu
        actor_index[k.cur().name] = ti
        spec, n, elem = dict(sh['spec']), sh['n'], sh['elem']
        spec['lock'] = 'rlock' if spec.get('lock') in (False, None) else spec['lock']
        rec = new_object(ti, 0, spec, pinned=True, use_ctx=fork_ctx)
        if rec is None:
            return
        obj = rec['obj']
        one = 1.0 if spec['type'] in 'fd' else 1
        lock = obj.get_lock()
        me = k.cur()
        done = {}

        def forked_child():
            a = k.enter('forked')
            k.wait_until(a, lambda: 'view' in done, None, 'forked')
            body(done['view'], 'child')
            k.exit_now(0)

        def clone(x):
            # (a forked child has a byte copy of the object; pickling hooks are not involved)
            y = object.__new__(type(x))
            y.__dict__.update(x.__dict__)
            return y

        def body(o, who):
            for _ in range(n):
                with o.get_lock():
                    cur = elem_get(o, spec, elem)
                    k.yield_('in-critical-section')
                    elem_set(o, spec, elem, cur + one)

        start = elem_get(obj, spec, elem)
        with lock:
            # --- fork here ---
            child = k.create_process('fk-', forked_child)
            sl = lock._semlock
            sl2 = type(sl)(sl.kind, 0, sl.maxvalue, _ksem=sl._s)
            sl2._cnt = sl._cnt
            sl2._last = child.main if sl._last is me else sl._last
            lock2 = clone(lock)
            lock2._semlock = sl2
            lock2._make_methods()
            for (_i, _ident, func), o in sorted(mpu._afterfork_registry.items(), key=lambda kv: kv[0][0]):
                if o is lock:
                    func(lock2)
                    k.probe('after_fork_hook_ran')
            view = clone(obj)
            view._lock = lock2
            view.acquire = lock2.acquire
            view.release = lock2.release
            done['view'] = view
            k.probe('forked_under_lock')
            cur = elem_get(obj, spec, elem)
            k.yield_('in-critical-section')
            k.yield_('in-critical-section')
            elem_set(obj, spec, elem, cur + one)
        body(obj, 'parent')
        k.waitpid(child.pid, 0)
        total = elem_get(obj, spec, elem)
        want = start + one * (2 * n + 1)
        if total != want:
            bad('atomic', 'lost-update-across-fork:%s' % spec['api'],
                '%s: parent (inside its lock when it forked) and forked child did %d locked increments, '
                'value went from %r to %r' % (describe(spec), 2 * n + 1, start, total))
        rec['pinned'] = False
        resync(rec)
        done.clear()
        del view, obj, lock, lock2
        drop_object(ti, 0)

    def user():
        acts = []
        for ti, prog in enumerate(case['threads']):
            acts.append(k.spawn_thread(lambda ti=ti, prog=prog: run_prog(ti, prog), 't%d' % ti))
        for si, sh in enumerate(case['shared']):
            fn = {'counter': run_counter, 'forklock': run_forklock}.get(sh['kind'], run_rmw)
            acts.append(k.spawn_thread(lambda si=si, sh=sh, fn=fn: fn(nthr + si, sh), 's%d' % si))
        for a in acts:
            k.join_actor(a)
        if any(a.exc is not None for a in k.actors):
            return
        sweep('epilogue')
        for sl in slots:
            for slot in sorted(sl):
                check_rec(sl[slot], 'epilogue')
        mon.check('epilogue')

    k.step_hook = mon.step_hook
    k.state_fn = mon.abstract_state
    try:
        k.spawn_actor(k.root, user, 'P0.user', main=True)
        end = k.run()
    finally:
        SH.set_wrapper_heap(old_heap)
    mon.finalizer_exceptions()
    viol.extend(mon.viol)
    for a in k.actors:
        if a.exc is not None:
            viol.append(V('C15.x', 'actor-exception:%s' % type(a.exc).__name__, '%s: %r' % (a.name, a.exc)))
    if end != 'quiescent':
        stuck = sorted(set(a.label.split(':')[0] for a in k.actors if a.state != 'done'))
        viol.append(V('C15.live', 'no-quiescence:%s:%s' % (end, ','.join(stuck)), repr(k.blocked_report())[:600]))
    p = k.probes
    nontrivial = k.n_decisions > 0 and bool(p.get('fresh_on_recycled_dirty_storage') or p.get('child_copy_made')
                                            or p.get('sem_blocked'))
    return finish(k, case, viol, nontrivial)


def _fits(spec, w):
    """A write generated for one spec may meet another one after shrinking: skip it then."""
    sh = shape_of(spec)
    kind = w[0]
    if sh == 'simple':
        return kind == 'value'
    if sh == 'struct':
        return kind == 'field' and w[1] < len(STRUCTS[spec['type']])
    if spec['len'] == 0:
        return False
    if kind == 'raw':
        return sh == 'chars'
    if kind == 'item':
        return w[1] < spec['len']
    return kind == 'slice'
