"""Oracle clauses C01-C12 evaluated over the recorded history of an S-POOL run.

Signatures are `<clause>:<what>[:<job kind>][:<cause>]`; causes come from diagnose() so that a
known finding can be matched by what actually went wrong rather than by the pool's settings."""
import traceback as _tb

from . import pooltask as T
from .pool_world import exc_of, POOL_MADE, ACK, READY, DEATH, NACK, TERMSIGS

RECURSION_LIMIT_DEPTH = 900
EX_RECYCLE = 155


def natural_static(prog, uid):
    """Outcome of a fault-free program: ('ret', value) | ('exc', name, args) | ('unpicklable',) | ('other',)."""
    for ins in prog:
        op = ins[0]
        if op in ('tick', 'sleep', 'rss', 'until', 'ignore_term'):
            continue
        if op == 'ret':
            return ('ret', ('v', uid, ins[1]))
        if op in ('raise', 'raise_exec'):
            return ('exc', ins[1], ('boom', uid))
        if op == 'recurse':
            if ins[1] >= RECURSION_LIMIT_DEPTH:
                return ('exc', 'RecursionError', None)
            return ('exc', ins[2], ('deep', uid))
        if op == 'try':
            inner = natural_static(ins[1], uid)
            if inner[0] == 'exc':
                return natural_static(ins[2], uid)
            return inner
        if op in ('unpicklable', 'nested_unpicklable'):
            return ('unpicklable',)
        return ('other',)
    return ('ret', ('v', uid, None))


def has_fault_instr(prog):
    for ins in prog:
        if ins[0] in ('die', 'os_exit', 'sys_exit'):
            return True
        if ins[0] in ('try', 'catch_soft'):
            if has_fault_instr(ins[1]) or (ins[0] == 'try' and has_fault_instr(ins[2])):
                return True
    return False


def owners_info(W, rec):
    """part index -> list of [pid, ack_step, ready_step or None, ack_sim_time, ack_args]."""
    out = {}
    jid = rec.jobid
    for pid, msgs in W.msgs_out.items():
        for (step, t, kind, args) in msgs:
            if kind == ACK and args[0] == jid:
                out.setdefault(args[1], []).append([pid, step, None, t, args])
            elif kind == READY and args[0] == jid:
                for ent in out.get(args[1], ()):
                    if ent[0] == pid and ent[2] is None:
                        ent[2] = step
    return out


def unfinished_dead_owners(W, owners, before_step):
    out = []
    for i, ents in owners.items():
        for pid, ack_step, ready_step, _t, _a in ents:
            w = W.workers.get(pid)
            if w and ready_step is None and w['proc'].dead and w['proc'].death_step <= before_step:
                out.append((i, pid, w['proc'].status))
    return out


TRUNCATED = 'result-stream-truncated-by-signal-in-half-written-message'


def diagnose(W):
    """Why did the run not drain?  One primary cause tag."""
    k = W.k
    pc = W.case['pool']
    live = [w for w in W.workers.values() if not w['proc'].dead]
    if W.marks.get('task_stream_desync'):
        return 'task-stream-desynchronised-by-signal-in-half-read-task'
    if W.marks.get('task_taken_not_announced'):
        return 'task-read-but-not-announced-by-signalled-worker'
    for pid, residue in W.wire_out.items():
        w = W.workers.get(pid)
        if residue and w is not None and w.get('term_in_write'):
            # the worker was unwound by a termination signal (shrink(), operator) in the middle of writing a
            # message: the parent reads the rest of the stream from a wrong offset
            return TRUNCATED
    if W.closed_at is not None and pc.get('maxtasksperchild'):
        # workers that reached their quota and were never replaced because close() stops the supervisor
        # (they exited after close(), or shortly before it and the next supervision pass never came)
        started_after_close = [w for w in W.workers.values() if w['start_step'] > W.closed_at[0]]
        recycled = [w for w in W.workers.values() if w['proc'].dead and
                    w['proc'].status == ('exit', EX_RECYCLE) and
                    (w['proc'].death_time is None or w['proc'].death_time >= W.closed_at[1] - 0.85)]
        live_n = W.marks.get('live_before_terminate', len(live))
        th_stuck = any(a.kind == 'TaskHandler' and a.state != 'done' for a in k.actors)
        queued = len(W.in_pipe.buf) > 0 or (W.pool is not None and W.pool._taskqueue.qsize() > 0) or th_stuck
        if recycled and live_n < pc['processes'] and queued:
            return 'recycled-after-close-not-replaced'
    if W.closed_at is not None:
        # the same for a worker that died (in a task) around/after close(): it is not replaced either, and jobs
        # still queued for it are never run
        clean = (('exit', 0), ('exit', EX_RECYCLE)) if pc.get('maxtasksperchild') else (('exit', 0),)
        # (a worker that leaves from inside a task died, whatever status it chose)
        died = [w for w in W.workers.values() if w['proc'].dead and
                (w['proc'].status not in clean or w['proc'].info.get('executing'))
                and (w['proc'].death_time is None or w['proc'].death_time >= W.closed_at[1] - 0.85)
                and not any(tc['t0'][0] <= (w['proc'].death_step or 0) for tc in W.term_calls)]
        live_n = W.marks.get('live_before_terminate', len(live))
        th_stuck = any(a.kind == 'TaskHandler' and a.state != 'done' for a in k.actors)
        queued = len(W.in_pipe.buf) > 0 or (W.pool is not None and W.pool._taskqueue.qsize() > 0) or th_stuck
        if died and live_n < pc['processes'] and queued:
            return 'died-after-close-not-replaced'
    # a queue lock still held by a process that is dead?
    locks = {getattr(W, 'outq_wlock_id', None): 'result-queue-write-lock',
             getattr(W, 'inq_rlock_id', None): 'task-queue-read-lock'}
    holder = {}
    for e in k.log:
        if e[2] == 'sem-acq' and e[3] in locks and e[4] is True:
            holder[e[3]] = e[1]
        elif e[2] == 'sem-rel' and e[3] in locks:
            holder.pop(e[3], None)
    for sid, actor in holder.items():
        if actor.startswith('W'):
            pid = int(actor[1:].split('.')[0])
            w = W.workers.get(pid)
            if w is not None and w['proc'].dead:
                st = w['proc'].status
                return '%s-held-by-dead-worker:%s' % (locks[sid], 'sigkill' if st == ('signal', 9) else
                                                      '%s-%d' % st)
    # any other shared lock (a worker's consumed-results counter) somebody waits for, last taken by a worker
    # that is dead
    waited = set()
    for a in k.actors:
        if a.state == 'blocked' and a.label.startswith('sem:'):
            try:
                waited.add(int(a.label.split(':')[1]))
            except ValueError:
                pass
    if waited:
        last = {}
        for e in k.log:
            if e[2] == 'sem-acq' and e[3] in waited and e[4] is True:
                last[e[3]] = e[1]
            elif e[2] == 'sem-rel' and e[3] in waited and e[4] != 'rec':
                last.pop(e[3], None)
        for sid, actor in sorted(last.items()):
            if actor.startswith('W') and sid not in locks:
                w = W.workers.get(int(actor[1:].split('.')[0]))
                if w is not None and w['proc'].dead:
                    st = w['proc'].status
                    return 'ready-counter-lock-held-by-dead-worker:%s' % ('sigkill' if st == ('signal', 9)
                                                                           else '%s-%d' % st)
    if not pc.get('threads', True):
        # without helper threads nobody reads results while join() runs its shutdown steps one after the other:
        # is a live worker blocked in a write to the (full) result pipe, holding the write lock join() needs
        # for its own sentinel?
        for sid, actor in holder.items():
            if locks[sid] == 'result-queue-write-lock' and actor.startswith('W'):
                w = W.workers.get(int(actor[1:].split('.')[0]))
                ma = w['proc'].main if w is not None else None
                if ma is not None and not w['proc'].dead and ma.state == 'blocked' and ma.label.startswith('write:'):
                    return 'nothreads-result-pipe-full-nobody-reads'
        return 'nothreads'
    return 'other'


def _stuck_suffix(k, cause):
    """A loss that is never reported in a run that is wedged for a diagnosed reason (nobody is left to reap the
    worker) is a consequence of that reason; name it in the signature."""
    if k.end_reason != 'quiescent' and cause.endswith('-after-close-not-replaced'):
        return ':' + cause
    return ''


def human_status_of(status):
    kind, n = status
    if kind == 'signal':
        return 'signal %d' % n
    return 'exitcode %d' % n


def judge(W):
    k = W.k
    case = W.case
    prop = case['prop']
    ex = W.exec_log()
    bad = W.bad
    pool = W.pool
    end = k.end_reason
    cause = diagnose(W) if end != 'quiescent' or True else 'other'

    # ---------------------------------------------------------------- general
    for a in k.actors:
        if a.exc is not None and isinstance(a.exc, SystemExit) and a.kind in (
                'Supervisor', 'TaskHandler', 'ResultHandler', 'TimeoutHandler'):
            continue        # PoolThread.run ends its thread with sys.exit() after RestartFreqExceeded
        if a.exc is not None:
            bad(prop + '.x', 'actor-exception:%s:%s' % (a.kind, type(a.exc).__name__),
                '%s: %r\n%s' % (a.name, a.exc,
                                ''.join(_tb.format_exception(type(a.exc), a.exc, a.exc.__traceback__))[-900:]))
    if k.host_exit is not None:
        who, why = '?', ''
        for e in k.log:
            if e[2] == 'death' and e[3] == k.root.pid:
                who = e[1].split('.')[-1].split('#')[0]
            if e[2] == 'actor-crash':
                why = '%s %s' % (e[3], e[4])
        crash = ''
        for e in k.log:
            if e[2] == 'pool-error' and 'crashed' in e[3]:
                crash = e[4]
        for p in sorted(set([prop, 'C01', 'C05'] if who == 'TimeoutHandler' else [prop, 'C01'])):
            bad(p + '.f', 'host-exit:by-%s:%s' % (who, crash or k.host_exit[0]),
                'a pool thread took the host process down: status %r (thread %s) %s' % (k.host_exit, who, crash))
    if end not in ('quiescent', 'host-exit'):
        ua = [a for a in k.actors if a.name == 'P0.user']
        where = W.marks.get('cur_op', '?')
        lab = ua[0].label.split(':')[0] if ua and ua[0].state != 'done' else 'user-done'
        clause = {'join': 'C07', 'close': 'C07', 'terminate': 'C08'}.get(where, prop)
        det = 'run ended by %s while the user was in %s (blocked on %s); cause: %s; blocked actors: %r' % (
            end, where, lab, cause, k.blocked_report()[:5])
        bad(clause + '.live', 'stuck:in-%s:%s' % (where, cause), det)
        if clause != prop:
            bad(prop + '.live', 'stuck:in-%s:%s' % (where, cause), det)

    # ---------------------------------------------------------------- per job: C01 / C04 / C12
    cache_ids = set(pool._cache.keys()) if pool is not None else set()
    for uid, rec in W.jobs.items():
        if rec.after_close:
            if rec.returned_handle:
                bad('C07.c', 'accepted-after-close:%s' % rec.kind, 'job %r submitted after close() got a handle' % uid)
            continue
        if not rec.returned_handle:
            continue
        nok = sum(1 for c in rec.cbs if c[2] == 'ok')
        nerr = sum(1 for c in rec.cbs if c[2] == 'err')
        if nok + nerr > 1:
            bad('C01.b', 'callbacks-fired-twice:%s' % rec.kind,
                'job %r: success callbacks %d, error callbacks %d' % (uid, nok, nerr))
        if rec.discarded or rec.cancelled:
            continue
        res = rec.res
        owners = owners_info(W, rec)
        if rec.kind in ('imap', 'imap_unordered'):
            judge_imap(W, rec, ex, owners, cause)
            continue
        if rec.opts.get('builtin'):
            # the callable is a C function that raises: its own exception must come back, with a usable record
            want = T.BUILTIN_RAISES[rec.opts['builtin']]
            got = None
            if res.ready() and not res._success:
                got = exc_of(res._value)
            if got is None or got[0] != want:
                for cl in ('C12.a', 'C02.a'):
                    bad(cl, 'builtin-callable-exception-not-delivered',
                        'job %r (%s): expected %s, outcome %r' % (uid, rec.opts['builtin'], want,
                                                                  got[0] if got else ('pending' if not res.ready()
                                                                                      else 'success')))
            else:
                check_einfo_builtin(W, rec, got)
            continue
        if not res.ready():
            abandoned = W.case.get('epilogue') == 'terminate_only' and W.term_calls
            if (W.marks.get('drain_end') or end == 'quiescent') and not abandoned:
                jc = job_cause(W, rec, ex, owners, cause)
                bad('C01.a', 'unresolved:%s:%s' % (rec.kind, jc),
                    'job %r (%s) never reached a terminal outcome; observed %r' % (uid, rec.kind, rec.observed[-2:]))
                if jc.startswith('worker-died'):
                    bad('C04.e', 'loss-not-reported:%s%s' % (rec.kind, _stuck_suffix(k, cause)),
                        'job %r: its worker died (%s) and the handle never resolved' % (uid, jc))
            continue
        if rec.jobid in cache_ids and all_accepted(res) and end == 'quiescent':
            bad('C01.g', 'cache-leak:%s' % rec.kind, 'job %r resolved and accepted but still cached' % uid)
        if res._success:
            check_value(W, rec, res._value, ex)
            if nerr:
                bad('C01.b', 'error-callback-on-success:%s' % rec.kind, 'job %r' % uid)
        else:
            tname, args, exc, einfo = exc_of(res._value)
            check_failure(W, rec, tname, args, exc, einfo, ex, owners)
            if nok:
                bad('C01.b', 'success-callback-on-failure:%s' % rec.kind, 'job %r' % uid)
            check_einfo(W, rec, tname, args, exc, einfo)

    judge_C02(W, ex) if prop == 'C02' else None
    judge_C03(W, ex)
    judge_C04(W, ex)
    judge_C05(W, ex)
    judge_C06(W, ex)
    judge_C07(W, ex, cause)
    judge_C08(W, ex)
    judge_C09(W, ex)
    judge_C10(W, ex)
    judge_C11b(W, ex)
    judge_C12(W, ex)
    nontrivial = k.n_decisions > 0 and subject_occurred(W, prop, ex)
    if cause == TRUNCATED:
        # once a partial message sits in the result pipe the parent parses everything after it from a wrong
        # offset: whatever this history shows afterwards is a consequence of that one defect.  Tag every
        # signature of the run with it (a narrow history condition, see diagnose()), nothing is dropped.
        for v in W.viol:
            if not v['sig'].endswith(TRUNCATED):
                v['sig'] += '@' + TRUNCATED
    return W.viol, nontrivial


def job_cause(W, rec, ex, owners, cause):
    if rec.opts.get('bad_arg'):
        return 'send-failed'
    dead = unfinished_dead_owners(W, owners, W.k.steps)
    if dead:
        return 'worker-died-in-task' + _stuck_suffix(W.k, cause)
    if not owners:
        return 'never-accepted:' + cause
    return 'accepted-not-finished:' + cause


def all_accepted(res):
    try:
        return bool(res.accepted())
    except Exception:     # noqa
        return False


def check_value(W, rec, value, ex):
    if rec.kind == 'apply':
        rets = [d['ret'] for d in ex.get(rec.uid, ()) if d['has_ret']]
        if value not in rets:
            W.bad('C01.d', 'foreign-value:apply',
                  'job %r resolved with %.80r which no execution of it returned (%r)' % (rec.uid, value, rets))
    else:
        uids = [it[0] for it in rec.items]
        if not isinstance(value, list) or len(value) != len(uids):
            W.bad('C02.m', 'map-result-shape:%s' % rec.kind,
                  'job %r: result %.120r for %d inputs' % (rec.uid, value, len(uids)))
            return
        for pos, (u, v) in enumerate(zip(uids, value)):
            rets = [d['ret'] for d in ex.get(u, ()) if d['has_ret']]
            if v not in rets:
                W.bad('C02.m', 'map-slot-wrong:%s' % rec.kind,
                      'job %r position %d holds %.60r, executions of that input returned %r (chunksize %r, %d inputs)'
                      % (rec.uid, pos, v, rets, rec.chunksize, len(uids)))
                W.bad('C01.d', 'foreign-value:%s' % rec.kind, 'job %r position %d' % (rec.uid, pos))
                break


def check_failure(W, rec, tname, args, exc, einfo, ex, owners):
    k = W.k
    uid = rec.uid
    uids = [uid] if rec.kind == 'apply' else [it[0] for it in rec.items]
    if tname in ('WorkerLostError', 'Terminated'):
        first = rec.first[0] if rec.first else k.steps
        dead = unfinished_dead_owners(W, owners, first)
        if not dead:
            finished_dead = sorted(set(W.workers[pid]['proc'].status for ents in owners.values()
                                       for pid, a, r, _t, _x in ents
                                       if r is not None and pid in W.workers and W.workers[pid]['proc'].dead))
            what = 'owner-finished-its-part-then-exited' if finished_dead else 'no-owner-exited'
            det = ('job %r failed %s%r but no worker holding an unfinished part of it had exited; owners that had '
                   'finished their part and exited: %r' % (uid, tname, args, finished_dead))
            W.bad('C01.d', 'lost-without-dead-owner:%s:%s' % (rec.kind, what), det)
            W.bad('C04.b', 'lost-without-dead-owner:%s:%s' % (rec.kind, what), det)
            W.bad('C09.j', 'job-failed-by-recycling:%s' % rec.kind, det) if finished_dead else None
        elif tname == 'Terminated':
            # only the job whose worker terminate_job() was aimed at is "terminated"; a job whose worker died
            # on its own at about the same time is "lost" (and gets the lost-worker grace period)
            targeted = set(r.opts.get('terminate_job_pid') for r in W.jobs.values()) - {None}
            if not any(p in targeted for _i, p, _st in dead):
                W.bad('C01.d', 'terminated-but-worker-not-targeted:%s' % rec.kind,
                      'job %r failed with Terminated; its worker(s) %r died on their own, terminate_job() was aimed '
                      'at %r' % (uid, [(p, st) for _i, p, st in dead], sorted(targeted)))
        elif tname == 'WorkerLostError':
            want = [human_status_of(st) for _i, _p, st in dead]
            msg = str(args[0]) if args else ''
            if not any(w in msg for w in want):
                # was the death reaped before the parent had consumed the job's accept message?
                why = 'other'
                acc = [c[0] for c in rec.cbs if c[2] == 'acc']
                for _i, dpid, _st in dead:
                    reap = next((e[0] for e in k.log if e[2] == 'reaped' and e[3] == dpid), None)
                    if reap is not None and (not acc or acc[0] > reap) and rec.kind == 'apply':
                        why = 'death-reaped-before-accept-consumed'
                W.bad('C04.a', 'status-not-named:%s:%s' % (rec.kind, why),
                      'job %r: message %r does not name the exit status %r' % (uid, msg, want))
        return
    if tname == 'TimeLimitExceeded':
        if not (W.case['pool'].get('timeout') or rec.opts.get('timeout')):
            W.bad('C01.d', 'timelimit-without-limit:%s' % rec.kind, 'job %r' % uid)
            W.bad('C05.d', 'timelimit-without-limit:%s' % rec.kind, 'job %r' % uid)
        return
    if rec.opts.get('bad_arg'):
        kinds = [c.__name__ for c in T.Unpicklable.KINDS]
        if tname not in kinds or not args or 'cannot pickle' not in str(args[0]):
            W.bad('C01.d', 'send-failure-wrong-error', 'job %r: %s%r' % (uid, tname, args))
        return
    if tname == 'MaybeEncodingError':
        if not any(d['ret'] == 'unpicklable' for u in uids for d in ex.get(u, ())):
            W.bad('C01.d', 'encoding-error-foreign:%s' % rec.kind, 'job %r' % uid)
        return
    raised = [(u, d['exc']) for u in uids for d in ex.get(u, ()) if d['exc']]
    if tname not in [r[1] for r in raised]:
        W.bad('C01.d', 'foreign-failure:%s:%s' % (rec.kind, tname),
              'job %r failed with %s%r; its own executions raised %r' % (uid, tname, args, raised))
        return
    if args and len(args) > 1 and isinstance(args[1], int) and args[1] not in uids:
        W.bad('C01.d', 'foreign-failure-args:%s' % rec.kind,
              'job %r failed with %s%r which belongs to another job' % (uid, tname, args))


def check_einfo(W, rec, tname, args, exc, einfo):
    """C12: the record that reaches the caller."""
    if not hasattr(einfo, 'traceback'):
        W.bad('C12.a', 'no-exception-record:%s' % rec.kind, 'job %r: value %r' % (rec.uid, einfo))
        return
    try:
        txt = ''.join(_tb.format_exception(einfo.type, exc, einfo.tb))
    except Exception as e:       # noqa
        W.bad('C12.b', 'tb-not-formattable:%s' % tname, 'job %r: %r' % (rec.uid, e))
        return
    n = 0
    t = einfo.tb
    while t is not None and n < 10000:
        n += 1
        t = t.tb_next
    from billiard.einfo import DEFAULT_MAX_FRAMES
    if n > DEFAULT_MAX_FRAMES + 3:
        W.bad('C12.b', 'tb-depth-unbounded', 'job %r: %d traceback nodes' % (rec.uid, n))
    if n >= DEFAULT_MAX_FRAMES:
        W.k.probe('deep_traceback_truncated')
    if einfo.type is None or einfo.type.__name__ != tname:
        W.bad('C12.a', 'type-mismatch', 'job %r: record type %r, exception %s' % (rec.uid, einfo.type, tname))
    if tname not in POOL_MADE and not rec.opts.get('bad_arg') and tname != 'MaybeEncodingError':
        text = einfo.traceback or ''
        # (every exception a task program raises itself comes from a `raise EXC[...]` line of pooltask.py)
        generated = rec.kind == 'apply' and any(ins[0] == 'raise_exec' for ins in (rec.prog or ()))
        if generated:
            ok_text = 'in generated_fn' in text
        else:
            ok_text = not (tname in T.EXC and tname != 'RecursionError' and 'raise EXC[' not in text)
        if 'pooltask.py' not in text or not ok_text:
            W.bad('C12.a', 'traceback-text-lacks-raising-frame', 'job %r: %.200r' % (rec.uid, text[-300:]))


def check_einfo_builtin(W, rec, got):
    tname, args, exc, einfo = got
    if not hasattr(einfo, 'traceback'):
        W.bad('C12.a', 'no-exception-record:%s' % rec.kind, 'job %r: value %r' % (rec.uid, einfo))
        return
    try:
        ''.join(_tb.format_exception(einfo.type, exc, einfo.tb))
    except Exception as e:       # noqa
        W.bad('C12.b', 'tb-not-formattable:%s' % tname, 'job %r: %r' % (rec.uid, e))
    if einfo.type is None or einfo.type.__name__ != tname:
        W.bad('C12.a', 'type-mismatch', 'job %r: record type %r, exception %s' % (rec.uid, einfo.type, tname))


def judge_imap(W, rec, ex, owners, cause):
    k = W.k
    if rec.observed and rec.observed[-1][1] == 'timeout':
        dead = unfinished_dead_owners(W, owners, k.steps)
        # losses the iterator did report already are not what it is waiting for
        reported = 0
        for o in rec.observed:
            if o[1] == 'err':
                inner = o[2].args[0] if getattr(o[2], 'args', None) else None
                if exc_of(inner)[0] in ('WorkerLostError', 'Terminated'):
                    reported += 1
        dead = dead[reported:]
        cs = rec.chunksize or 1
        nparts = (len(rec.items) + cs - 1) // cs
        jc = 'worker-died-in-task' + _stuck_suffix(k, cause) if dead else ('never-accepted:' + cause if len(owners) < nparts
                                                 else 'accepted-not-finished:' + cause)
        W.bad('C01.a', 'unresolved:%s:%s' % (rec.kind, jc),
              'iterator of job %r stopped delivering: %r' % (rec.uid, [o[1] for o in rec.observed][-4:]))
        if dead:
            W.bad('C04.e', 'loss-not-reported:%s%s' % (rec.kind, _stuck_suffix(k, cause)),
                  'job %r: a worker died inside an item and the iterator never reported it' % rec.uid)
    # one outcome per part: when the iterator has ended, every part whose worker wrote its result was
    # delivered, and every part lost with its worker was reported exactly once (never another part's)
    if rec.observed and rec.observed[-1][1] == 'stop' and W.case['prop'] in ('C04', 'C01', 'C02') and \
            not any(tc['t0'][0] <= rec.observed[-1][0] for tc in W.term_calls) and k.host_exit is None:
        cs = rec.chunksize or 1
        nparts = (len(rec.items) + cs - 1) // cs
        lost_errs = 0
        for o in rec.observed:
            if o[1] == 'err':
                e = o[2]
                inner = e.args[0] if getattr(e, 'args', None) else None
                if exc_of(inner)[0] in ('WorkerLostError', 'Terminated'):
                    lost_errs += 1
        done_parts = [i for i, ents in owners.items() if any(en[2] is not None for en in ents)]
        lost_parts = [i for i, ents in owners.items() if i not in done_parts and
                      all(W.workers.get(en[0]) and W.workers[en[0]]['proc'].dead for en in ents)]
        if lost_errs > len(lost_parts) + (nparts - len(owners)):
            W.bad('C04.i', 'loss-reported-more-than-once:%s' % rec.kind,
                  'job %r: %d lost-worker failures delivered, %d part(s) were lost with their worker (%d parts)'
                  % (rec.uid, lost_errs, len(lost_parts), nparts))
        got = [o[2] for o in rec.observed if o[1] == 'ok']
        for i in done_parts:
            part = rec.items[i * cs:(i + 1) * cs]
            if not all(natural_static(it[1], it[0])[0] == 'ret' for it in part):
                continue        # a failing input fails its whole chunk
            for it in part:
                runs = [d for d in ex.get(it[0], []) if d['has_ret']]
                if runs and runs[-1]['ret'] not in got:
                    W.bad('C04.i', 'finished-part-not-delivered:%s' % rec.kind,
                          'job %r: input %r was executed and its result written (part %d), the iterator ended '
                          'without delivering it' % (rec.uid, it[0], i))
                    break
    for o in rec.observed:
        if o[1] == 'err':
            e = o[2]
            inner = e.args[0] if getattr(e, 'args', None) else None
            tname, args, exc, einfo = exc_of(inner)
            if tname in ('WorkerLostError', 'Terminated'):
                if not unfinished_dead_owners(W, owners, o[0]):
                    W.bad('C01.d', 'lost-without-dead-owner:%s:owner-finished-its-part-then-exited' % rec.kind,
                          'job %r' % rec.uid)
                    W.bad('C04.b', 'lost-without-dead-owner:%s:owner-finished-its-part-then-exited' % rec.kind,
                          'job %r' % rec.uid)


def _cause_ok(exc):
    c = getattr(exc, '__cause__', None)
    return c is not None and type(c).__name__ == 'RemoteTraceback' and 'pooltask.py' in str(c) and \
        ('_run' in str(c) or '_recurse' in str(c))


def judge_C02(W, ex):
    bad = W.bad
    for uid, rec in W.jobs.items():
        if not rec.returned_handle or rec.discarded or rec.after_close or rec.opts.get('builtin'):
            continue
        obs = [o for o in rec.observed if o[1] != 'timeout']
        if rec.kind == 'apply':
            nat = natural_static(rec.prog, uid)
            if not obs:
                bad('C02.a', 'apply-no-result', 'job %r: %r' % (uid, rec.observed))
                continue
            o = obs[-1]
            if nat[0] == 'ret':
                if o[1] != 'ok' or o[2] != nat[1]:
                    bad('C02.a', 'apply-wrong-value', 'job %r: expected %r got %r' % (uid, nat[1], o[1:]))
            elif nat[0] == 'exc':
                if o[1] != 'err' or type(o[2]).__name__ != nat[1] or (nat[2] is not None and o[2].args != nat[2]):
                    bad('C02.a', 'apply-wrong-exception:%s' % nat[1], 'job %r: expected %r got %r' % (uid, nat, o[1:]))
                elif not _cause_ok(o[2]):
                    bad('C02.a', 'apply-no-remote-traceback:%s' % nat[1],
                        'job %r: __cause__ = %r' % (uid, getattr(o[2], '__cause__', None)))
            continue
        items = rec.items
        nats = [natural_static(it[1], it[0]) for it in items]
        failing = [i for i, n in enumerate(nats) if n[0] == 'exc']
        if failing:
            W.k.probe('map_with_failing_item')
        if rec.kind in ('map', 'starmap'):
            if not obs:
                bad('C02.m', 'map-no-result:%s' % rec.kind, 'job %r: %r' % (uid, rec.observed))
                continue
            o = obs[-1]
            if not failing:
                exp = [n[1] for n in nats]
                if o[1] != 'ok' or o[2] != exp:
                    bad('C02.m', 'map-wrong-result:%s' % rec.kind,
                        'job %r chunksize %r: expected %.100r got %.100r' % (uid, rec.chunksize, exp, o[1:]))
            else:
                if o[1] != 'err':
                    bad('C02.m', 'map-failure-not-raised:%s' % rec.kind, 'job %r got %.100r' % (uid, o[1:]))
                else:
                    e = o[2]
                    cands = [nats[i] for i in failing]
                    if not any(type(e).__name__ == c[1] and (c[2] is None or e.args == c[2]) for c in cands):
                        bad('C02.m', 'map-foreign-exception:%s' % rec.kind,
                            'job %r raised %s%r, its failing inputs raise %r' % (uid, type(e).__name__, e.args, cands))
                    elif not _cause_ok(e):
                        bad('C02.m', 'map-no-remote-traceback', 'job %r' % uid)
            continue
        cs = rec.chunksize or 1
        chunks = [list(range(i, min(i + cs, len(items)))) for i in range(0, len(items), cs)]
        exp_events = []
        for ch in chunks:
            f = [i for i in ch if nats[i][0] == 'exc']
            if f:
                exp_events.append(('err', nats[f[0]]))
            else:
                for i in ch:
                    exp_events.append(('ok', nats[i][1]))
        got = []
        for o in obs:
            if o[1] == 'ok':
                got.append(('ok', o[2]))
            elif o[1] == 'err':
                e = o[2]
                inner = e.args[0] if getattr(e, 'args', None) else None
                if not hasattr(inner, 'traceback'):
                    bad('C02.i', 'imap-error-without-record:%s' % rec.kind, 'job %r raised %r' % (uid, e))
                    got.append(('err', None))
                else:
                    tname, args, exc, einfo = exc_of(inner)
                    got.append(('err', ('exc', tname, args)))
            elif o[1] == 'stop':
                got.append(('stop',))
        body = [g for g in got if g[0] != 'stop']
        stopped = bool(got) and got[-1][0] == 'stop'
        shape = 'chunked' if cs > 1 else 'cs1'
        if len(body) == len(exp_events) and not stopped and any(o[1] == 'timeout' for o in rec.observed):
            # everything was delivered (or there was nothing to deliver) and the iterator never finishes
            bad('C02.i', 'iterator-never-finishes:%s:%s' % (rec.kind, 'empty-input' if not exp_events else shape),
                'job %r: %d of %d events delivered, then no StopIteration' % (uid, len(body), len(exp_events)))
        if rec.kind == 'imap':
            if body != exp_events[:len(body)]:
                bad('C02.i', 'imap-order-or-value:%s' % shape,
                    'job %r chunksize %d: expected %.160r got %.160r' % (uid, cs, exp_events, body))
            elif len(body) < len(exp_events):
                after_fail = any(g[0] == 'err' for g in body)
                bad('C02.i', 'imap-stops-early:%s:%s' % (shape, 'after-failure' if after_fail else 'no-failure'),
                    'job %r chunksize %d: %d of %d events delivered then %s'
                    % (uid, cs, len(body), len(exp_events), 'StopIteration' if stopped else 'nothing'))
        else:
            if sorted(map(repr, body)) != sorted(map(repr, exp_events)):
                if len(body) < len(exp_events) and all(repr(b) in set(map(repr, exp_events)) for b in body):
                    after_fail = any(g[0] == 'err' for g in body)
                    bad('C02.i', 'imap_unordered-stops-early:%s:%s' % (shape, 'after-failure' if after_fail
                                                                        else 'no-failure'),
                        'job %r chunksize %d: %d of %d events' % (uid, cs, len(body), len(exp_events)))
                else:
                    bad('C02.i', 'imap_unordered-multiset:%s' % shape,
                        'job %r: expected %.160r got %.160r' % (uid, exp_events, body))
    for uid, rec in W.jobs.items():
        if rec.kind != 'apply' and rec.items is not None and len(rec.items) == 0 and rec.returned_handle:
            for (step, t, kind, args) in [m for ms in W.msgs_out.values() for m in ms]:
                if kind == ACK and args[0] == rec.jobid:
                    bad('C02.e', 'empty-input-reached-worker:%s' % rec.kind, 'job %r' % uid)


# ---------------------------------------------------------------------- C03
def judge_C03(W, ex):
    k = W.k
    bad = W.bad
    pc = W.case['pool']
    nacked = set()      # (pid, job)
    for e in k.log:
        if e[2] == 'syn' and e[5] == NACK:
            nacked.add((e[3], e[4]))
    begin_by_pid = {}
    for e in k.log:
        if e[2] == 'exec-begin':
            begin_by_pid.setdefault(e[4], []).append((e[0], e[3]))
    for pid, msgs in W.msgs_out.items():
        w = W.workers.get(pid)
        pend = None
        nready = 0
        for (step, t, kind, args) in msgs:
            if kind == ACK:
                if pend is not None and (pid, pend[0]) not in nacked:
                    bad('C03.a', 'second-accept-before-result', 'worker %d accepted job %r while %r had no result'
                        % (pid, args[0], pend[0]))
                pend = (args[0], args[1], step, t, args)
                if args[3] != pid:
                    bad('C03.b', 'accept-carries-wrong-pid', 'worker %d announced pid %r' % (pid, args[3]))
                if w is not None and not (w['start_time'] - 1e-9 <= args[2] <= t + 1e-9):
                    bad('C03.b', 'accept-time-out-of-range',
                        'worker %d: acceptance time %r, worker started %r, message written at %r'
                        % (pid, args[2], w['start_time'], t))
            elif kind == READY:
                if pend is None or (pend[0], pend[1]) != (args[0], args[1]):
                    bad('C03.a', 'result-without-accept', 'worker %d sent a result for %r; pending accept %r'
                        % (pid, args[:2], pend and pend[:2]))
                else:
                    rec = W.job_by_id.get(args[0])
                    if rec is not None and not rec.opts.get('builtin'):
                        # the program ran between the two messages, in this worker
                        uids = [rec.uid] if rec.kind == 'apply' else [it[0] for it in rec.items]
                        ran = [b for b in begin_by_pid.get(pid, ()) if pend[2] <= b[0] <= step and b[1] in uids]
                        if not ran:
                            bad('C03.a', 'result-without-execution-between',
                                'worker %d job %r: no execution between its accept and result messages' % (pid, args[0]))
                nready += 1
                pend = None
            elif kind == DEATH:
                pass
        if pend is not None and w is not None and W.case['prop'] == 'C03':
            # accepted, the task's program ended (returned or raised), and no result message followed although
            # nobody signalled the worker: "exactly one result message" also holds for values that cannot be sent
            prec = W.job_by_id.get(pend[0])
            if prec is not None and prec.kind == 'apply':
                ended = [d for d in ex.get(prec.uid, ()) if d['pid'] == pid and d['end'] is not None]
                ds = w['proc'].death_step if w['proc'].dead else None
                # (the parent answers a worker's DEATH notice with a termination signal: that one does not count)
                bye = min([m[0] for m in msgs if m[2] == DEATH] + [ds if ds is not None else k.steps + 1])
                signalled = any(e[2] in ('sig-pending', 'sigkill') and e[3] == pid and e[0] < bye for e in k.log)
                if ended and not signalled and ds is not None and not any(tc['t0'][0] <= ds for tc in W.term_calls):
                    bad('C03.a', 'task-ended-without-result', 'worker %d accepted job %r, its program ended (%s) and '
                        'the worker exited with %r without sending a result' % (
                            pid, prec.uid, ended[0]['exc'] or 'returned', w['proc'].status))
        # quota
        quota = pc.get('maxtasksperchild')
        if quota and w is not None:
            nexec = len(begin_by_pid.get(pid, ()))
            if rec_is_apply_only(W):
                if nexec > quota:
                    bad('C03.q', 'quota-exceeded', 'worker %d executed %d jobs, quota %d' % (pid, nexec, quota))
                st = w['proc'].status
                memlim = pc.get('max_memory_per_child')
                if st == ('exit', EX_RECYCLE) and nexec != quota and not w['proc'].info.get('executing') and \
                        not (memlim and w['proc'].rss > memlim):
                    bad('C03.q', 'recycle-status-before-quota', 'worker %d exited with the recycle status after %d of %d jobs'
                        % (pid, nexec, quota))
    # NACK honoured: a refused job never executes
    for (pid, job) in nacked:
        rec = W.job_by_id.get(job)
        if rec is not None and ex.get(rec.uid):
            bad('C03.n', 'refused-job-executed', 'job %r was refused (NACK) but executed by %r'
                % (rec.uid, [d['pid'] for d in ex[rec.uid]]))
    # parent side: accept callback before the result callback, owner recorded
    for uid, rec in W.jobs.items():
        if rec.kind != 'apply' or not rec.returned_handle:
            continue
        acc = [c for c in rec.cbs if c[2] == 'acc']
        fin = [c for c in rec.cbs if c[2] in ('ok', 'err')]
        owners = owners_info(W, rec)
        if fin and owners and not rec.opts.get('bad_arg'):
            tname = None
            if rec.res.ready() and not rec.res._success:
                tname = exc_of(rec.res._value)[0]
            if tname not in POOL_MADE:
                if not acc:
                    bad('C03.p', 'result-callback-without-accept-callback', 'job %r' % uid)
                elif acc[0][0] > fin[0][0]:
                    bad('C03.p', 'accept-callback-after-result-callback', 'job %r' % uid)
        if acc and owners:
            ents = owners.get(None) or []
            apid, atime = acc[0][3][0]
            if ents and (apid, atime) != (ents[0][4][3], ents[0][4][2]):
                bad('C03.p', 'accept-callback-wrong-arguments', 'job %r: callback got %r, worker sent %r'
                    % (uid, (apid, atime), (ents[0][4][3], ents[0][4][2])))
            if ents and rec.res._worker_pid != ents[-1][0] and not rec.cancelled:
                bad('C03.p', 'owner-not-recorded', 'job %r: _worker_pid %r, accepted by %r'
                    % (uid, rec.res._worker_pid, ents[-1][0]))


def rec_is_apply_only(W):
    return all(r.kind == 'apply' for r in W.jobs.values())


# ---------------------------------------------------------------------- C04
def judge_C04(W, ex):
    k = W.k
    bad = W.bad
    pc = W.case['pool']
    if W.case['prop'] not in ('C04', 'C01', 'C09'):
        return
    died = {}       # uid -> (pid, status)
    for uid, runs in ex.items():
        for d in runs:
            w = W.workers.get(d['pid'])
            if w and w['proc'].dead and d['end'] is None and w['proc'].status is not None:
                died[uid] = (d['pid'], w['proc'].status)
    if died:
        k.probe('worker_died_in_task', len(died))
    term_step = W.term_calls[0]['t0'][0] if W.term_calls else None
    for uid, (pid, status) in died.items():
        juid = W.item_owner.get(uid)
        rec = W.jobs.get(juid)
        if rec is None or rec.discarded or not rec.returned_handle:
            continue
        proc = W.workers[pid]['proc']
        if term_step is not None and proc.death_step >= term_step:
            continue        # killed by terminate(), not a fault
        if status[0] == 'signal' and status[1] in (15, 9) and (pc.get('timeout') or rec.opts.get('timeout')):
            continue        # time-limit kill: C05's business
        res = rec.res
        if rec.kind in ('imap', 'imap_unordered'):
            errs = [exc_of(o[2].args[0] if getattr(o[2], 'args', None) else None) for o in rec.observed if o[1] == 'err']
            if not any(e[0] == 'WorkerLostError' for e in errs):
                if not (rec.observed and rec.observed[-1][1] == 'timeout'):
                    bad('C04.a', 'died-in-task-not-reported-lost:%s' % rec.kind,
                        'job %r item %r: worker %d died (%r) inside it; iterator events %r'
                        % (juid, uid, pid, status, [o[1] for o in rec.observed]))
            continue
        if not res.ready():
            continue        # C01.a / C04.e report it
        if res._success:
            bad('C04.a', 'died-in-task-but-succeeded:%s' % rec.kind, 'job %r: worker %d died (%r) inside it'
                % (juid, pid, status))
            continue
        tname, args, exc, einfo = exc_of(res._value)
        if tname not in ('WorkerLostError', 'Terminated'):
            others = [u for u in ([it[0] for it in rec.items] if rec.items else []) if u != uid]
            if rec.kind != 'apply' and any(d['exc'] == tname for u in others for d in ex.get(u, ())):
                continue    # another input of the same map failed first: also a legitimate outcome
            if tname == 'TimeLimitExceeded':
                continue
            bad('C04.a', 'died-in-task-wrong-outcome:%s:%s' % (rec.kind, tname),
                'job %r: worker %d died (%r) inside it, outcome %s%r' % (juid, pid, status, tname, args))
            continue
        # timing: no earlier than the lost-worker timeout after detection, no later than + one period
        lost = getattr(res, '_worker_lost', None)
        T_ = rec.opts.get('lost_worker_timeout') or pc.get('lost_worker_timeout') or 10.0
        if lost and rec.first and not W.case.get('sleep_jitter') and tname == 'WorkerLostError':
            dt = rec.first[1] - lost[0]
            if dt < T_ - 1e-6:
                bad('C04.c', 'lost-too-early:%s' % rec.kind,
                    'job %r failed %.3fs after the death was noticed; lost-worker timeout %.1fs' % (juid, dt, T_))
            elif dt > T_ + 1.15 and W.closed_at is None:
                bad('C04.c', 'lost-too-late:%s' % rec.kind,
                    'job %r failed %.3fs after the death was noticed; lost-worker timeout %.1fs (+ one period)'
                    % (juid, dt, T_))
    # (d) pool size restored once the jobs drained (before close)
    snap = W.marks.get('pool_at_drain_end')
    if snap and died and snap['state'] == 0 and W.case['prop'] == 'C04' and k.host_exit is None:
        if snap['len'] != snap['processes']:
            bad('C04.d', 'pool-size-not-restored', 'after the losses the pool holds %d workers, target %d'
                % (snap['len'], snap['processes']))


# ---------------------------------------------------------------------- C05
def judge_C05(W, ex):
    k = W.k
    bad = W.bad
    pc = W.case['pool']
    if W.case['prop'] not in ('C05',):
        return
    kills = [e for e in k.log if e[2] in ('kill', 'killpg')]
    if any(e[2] == 'killpg' for e in kills):
        k.probe('killpg_branch')
    # signals the scanner sent while enforcing the hard limit of a given job: jobid -> [(step, pid)]
    hard_kills = {}
    cur = None
    for e in k.log:
        if 'TimeoutHandler' not in e[1]:
            continue
        if e[2] == 'hard-intent':
            cur = e[3]
        elif e[2] == 'soft-intent' or (e[2] == 'sleep' and e[3] == 1.0):
            cur = None
        elif e[2] in ('kill', 'killpg') and cur is not None and e[4] in (15, 9):
            hard_kills.setdefault(cur, []).append((e[0], e[3]))
    nlimited = 0
    for uid, rec in W.jobs.items():
        if rec.kind != 'apply' or not rec.returned_handle:
            continue
        res = rec.res
        lim = rec.opts.get('timeout') or pc.get('timeout')
        acc_t = res._time_accepted if isinstance(res._time_accepted, (int, float)) else None
        if not res.ready():
            continue
        tname = None if res._success else exc_of(res._value)[0]
        if tname == 'TimeLimitExceeded':
            nlimited += 1
            k.probe('hard_limit_fired')
            args = exc_of(res._value)[1]
            if lim is None:
                continue
            if args and args[0] != lim:
                bad('C05.e', 'wrong-limit-reported', 'job %r: TimeLimitExceeded%r, effective limit %r (own %r, pool %r)'
                    % (uid, args, lim, rec.opts.get('timeout'), pc.get('timeout')))
            if acc_t is not None and rec.first:
                el = rec.first[1] - acc_t
                if el < lim - 1e-6:
                    bad('C05.d', 'timed-out-before-limit', 'job %r failed after %.3fs, limit %.2fs' % (uid, el, lim))
                late = el - lim
                # (not in runs in which the enforcing thread itself is descheduled inside the TERM/wait/KILL sequence)
                if late > 1.0 + 0.15 * len(W.jobs) + 0.05 and pc.get('threads', True) and \
                        not W.case.get('th_preempt'):
                    bad('C05.a', 'timed-out-late', 'job %r failed %.3fs after its limit expired (scan period 1s)'
                        % (uid, late))
            # (b) the process that ran it is gone
            pid = res._worker_pid
            w = W.workers.get(pid)
            if w is not None:
                p = w['proc']
                if not p.dead:
                    bad('C05.b', 'worker-survived-hard-limit', 'job %r: pid %d still alive at the end' % (uid, pid))
                elif rec.first and p.death_time is not None and p.death_time - rec.first[1] > 2.5 and \
                        not W.case.get('th_preempt'):
                    bad('C05.b', 'worker-lingered', 'job %r: pid %d died %.2fs after the job was failed'
                        % (uid, pid, p.death_time - rec.first[1]))
        else:
            # a job that resolved otherwise is never timed out: no hard-limit callback, no worker killed for it
            tos = [c for c in rec.cbs if c[2] == 'to' and c[3][1] is not None and not c[3][1].get('soft')]
            if tos:
                bad('C05.n', 'timeout-callback-for-finished-job', 'job %r resolved (%s) and its timeout callback was '
                    'called with %r' % (uid, tname or 'success', tos[0][3][1]))
            acted = hard_kills.get(rec.jobid)
            if acted:
                bad('C05.n', 'worker-killed-for-finished-job', 'job %r resolved (%s); the scanner then signalled '
                    'pid %r on its behalf at step %d' % (uid, tname or 'success', acted[0][1], acted[0][0]))
            # a job that ran longer than its limit (+ one scan) must not have been left alone
            if lim is not None and acc_t is not None and rec.first and pc.get('threads', True):
                el = rec.first[1] - acc_t
                # (when the scanner itself is descheduled - th_preempt - the time it was kept off the processor is
                # added to what "one scan period" allows)
                off = 0.0
                if W.case.get('th_preempt'):
                    off = W.case['th_preempt'] * sum(1 for e in k.log if e[2] == 'line-stall')
                if el > lim + 1.0 + 0.15 * len(W.jobs) + 0.05 + off:
                    bad('C05.a', 'limit-not-enforced', 'job %r resolved (%s) %.3fs after acceptance, limit %.2fs'
                        % (uid, tname or 'success', el, lim))
    W.subj('hard_limited_jobs', nlimited)


# ---------------------------------------------------------------------- C06
def judge_C06(W, ex):
    k = W.k
    bad = W.bad
    pc = W.case['pool']
    if W.case['prop'] != 'C06':
        return
    # SIGUSR1 sent by the pool: (step, time, pid)
    usr1 = [(e[0], e[3]) for e in k.log if e[2] == 'kill' and e[4] == 10 and 'TimeoutHandler' in e[1]]
    # (the scanner's own sleep between two scans lasts 1.0 s; a slow user callback run by that thread sleeps too)
    scans = [e for e in k.log if e[2] == 'sleep' and 'TimeoutHandler' in e[1] and e[3] == 1.0]
    intent = {}
    cur = None
    for e in k.log:
        if e[2] == 'soft-intent':
            cur = e[3]
        elif e[2] == 'hard-intent':
            cur = None
        elif e[2] == 'kill' and e[4] == 10 and 'TimeoutHandler' in e[1] and cur is not None:
            intent.setdefault(cur, []).append(e[0])
            cur = None
    for uid, rec in W.jobs.items():
        if rec.kind != 'apply' or not rec.returned_handle:
            continue
        res = rec.res
        soft = rec.opts.get('soft_timeout') or pc.get('soft_timeout')
        hard = rec.opts.get('timeout') or pc.get('timeout')
        runs = ex.get(uid, [])
        if not runs:
            continue
        d = runs[0]
        pid = d['pid']
        last = d['end'] if d['end'] is not None else k.steps
        owners = owners_info(W, rec)
        ack_step = min([e[1] for ents in owners.values() for e in ents] or [d['begin']])
        # the signals the scanner sent on behalf of THIS job (it names the job when it decides; the signal goes
        # to the worker recorded for the job, which may have moved on to another job if this job's result is
        # still waiting to be read - that is the asynchrony the property allows, not a second job's signal)
        mine = intent.get(rec.jobid, [])
        tos = [c for c in rec.cbs if c[2] == 'to' and c[3][1] and c[3][1].get('soft')]
        if soft is None:
            if mine:
                bad('C06.b', 'soft-signal-without-soft-limit', 'job %r got %d SIGUSR1' % (uid, len(mine)))
            continue
        if len(mine) > 1:
            bad('C06.a', 'soft-signal-repeated', 'job %r: %d SIGUSR1 sent on its behalf (soft limit %.2fs)'
                % (uid, len(mine), soft))
        if len(tos) > 1:
            bad('C06.e', 'soft-callback-repeated', 'job %r: timeout_callback(soft=True) called %d times' % (uid, len(tos)))
        for c in tos:
            if c[3][1].get('timeout') != soft:
                bad('C06.e', 'soft-callback-wrong-limit', 'job %r: callback got %r, effective soft limit %r'
                    % (uid, c[3][1], soft))
        if mine:
            k.probe('soft_limit_fired')
            if len(tos) != len(mine):
                bad('C06.e', 'soft-callback-count', 'job %r: %d signals, %d callbacks' % (uid, len(mine), len(tos)))
            if rec.first is not None and mine[0] > rec.first[0]:
                bad('C06.c', 'soft-signal-after-result-processed', 'job %r: SIGUSR1 at step %d, result processed at %d'
                    % (uid, mine[0], rec.first[0]))
            if d['end'] is not None and mine[0] > d['end']:
                k.probe('soft_signal_after_program_end')
        # a scan inside [accept+soft, accept+hard) while still running => exactly one signal, surfaced in the task
        acc_t = res._time_accepted if isinstance(res._time_accepted, (int, float)) else None
        seen = [c[1] for c in rec.cbs if c[2] == 'acc']     # when the parent consumed the accept message
        if acc_t is not None and seen:
            end_t = rec.first[1] if rec.first else k.now
            wp = W.workers[pid]['proc'] if pid in W.workers else None
            gone = min(d['end'] if d['end'] is not None else k.steps + 1,
                       wp.death_step if wp is not None and wp.dead else k.steps + 1)
            in_window = [e for e in scans if acc_t + soft <= e[4] - 1e-9 and seen[0] < e[4] and e[0] < gone and
                         e[4] < min(end_t, acc_t + (hard or 1e9)) - 0.2]
            if in_window and not mine and pc.get('threads', True):
                bad('C06.d', 'soft-limit-not-delivered', 'job %r ran past its soft limit (%.2fs) across %d scans, no signal'
                    % (uid, soft, len(in_window)))
        if mine:
            surfaced = d['exc'] == 'SoftTimeLimitExceeded' or any(e[2] == 'soft-caught' and e[3] == uid for e in k.log)
            if d['end'] is not None and mine[0] < d['end'] - 3 and not surfaced and d['exc'] is None:
                bad('C06.d', 'soft-limit-not-raised-in-task', 'job %r: signal sent at step %d, program ended at %d without '
                    'seeing SoftTimeLimitExceeded' % (uid, mine[0], d['end']))
            # signals that landed in this job's execution but were sent on behalf of another job (whose result
            # was still unread when the scanner looked): the property allows those
            stray = [s for (s, p) in usr1 if p == pid and d['begin'] <= s <= last and s not in mine]
            if any(e[2] == 'soft-caught' and e[3] == uid for e in k.log) and not stray:
                k.probe('soft_limit_caught')
                if res.ready() and not (res._success and res._value == ('v', uid, 'soft-caught')):
                    tn = None if res._success else exc_of(res._value)[0]
                    if tn != 'TimeLimitExceeded':
                        bad('C06.g', 'caught-soft-limit-value-not-delivered', 'job %r: outcome %r'
                            % (uid, res._value if res._success else tn))


def guard_cause(W, pid):
    """Why was a worker's result never counted as consumed?"""
    k = W.k
    reg = next((e[0] for e in k.log if e[2] == 'worker-registered' and e[3] == pid), None)
    readies = [(m[3][0], m[3][1]) for m in W.msgs_out.get(pid, ()) if m[2] == READY]
    consumed = {}
    for e in k.log:
        if e[2] == 'result-consumed':
            consumed.setdefault((e[3], e[4]), e[0])
    if any(key not in consumed for key in readies):
        return 'result-never-read-by-parent'
    if reg is None or any(consumed[key] < reg for key in readies):
        return 'result-consumed-before-worker-registered'
    return 'other'


# ---------------------------------------------------------------------- C07
def judge_C07(W, ex, cause):
    k = W.k
    bad = W.bad
    if W.closed_at is None:
        return
    pc = W.case['pool']
    term_step = W.term_calls[0]['t0'][0] if W.term_calls else None
    for e in k.log:
        if e[2] == 'guard':
            pid, ok, elapsed, completed = e[3], e[4], e[5], e[6]
            if not ok and elapsed >= 25.0:
                k.probe('guard_loop_exhausted')
                if not (term_step is not None and term_step <= e[0]):
                    why = guard_cause(W, pid)
                    if why == 'result-never-read-by-parent' and k.end_reason != 'quiescent' and cause != 'other':
                        # the run is stuck for a diagnosed reason and nobody reads results any more: the worker
                        # waiting out its guard is a consequence of that, not a second defect
                        why = cause
                    bad('C07.g', 'guard-exhausted:%s' % why,
                        'worker %d waited out its result-consumption guard (%.1fs, %d completed) although the '
                        'parent kept consuming results (%s)' % (pid, elapsed, completed, why))
    jr = W.marks.get('join_ret')
    if jr is None:
        return
    if W.case['prop'] == 'C07':
        for uid, rec in W.jobs.items():
            if rec.after_close or not rec.returned_handle or rec.discarded:
                continue
            if rec.submitted[0] > W.closed_at[0]:
                continue
            res = rec.res
            if rec.kind in ('imap', 'imap_unordered'):
                if not res.ready() and not (res._length is not None and res._index == res._length):
                    bad('C07.a', 'unresolved-at-join:%s:%s' % (rec.kind, cause), 'job %r' % uid)
                continue
            if not res.ready():
                bad('C07.a', 'unresolved-at-join:%s:%s' % (rec.kind, cause),
                    'job %r submitted before close() is unresolved after join()' % uid)
            elif not res._success:
                tname, args, exc, einfo = exc_of(res._value)
                if tname in POOL_MADE:
                    bad('C07.a', 'pool-made-failure-after-close:%s:%s' % (rec.kind, tname), 'job %r: %s%r' % (uid, tname, args))
    last_res = max([r.first[1] for r in W.jobs.values() if r.first] + [W.closed_at[1]])
    tail = jr[1] - max(last_res, W.closed_at[1])
    if tail >= 25.0 and not W.case.get('sleep_jitter'):
        whys = sorted(set(guard_cause(W, e[3]) for e in k.log if e[2] == 'guard' and not e[4] and e[5] >= 25.0))
        bad('C07.t', 'join-slow:%s' % ('+'.join(whys) or 'no-guard-exhausted'),
            'join() returned %.1fs after the later of close() and the last resolution' % tail)
    snap = W.marks.get('after_join')
    if snap:
        for pid, (dead, reaped, status) in snap['workers'].items():
            if not dead:
                bad('C07.p', 'worker-alive-after-join', 'pid %d' % pid)
            elif not reaped:
                bad('C07.p', 'worker-not-reaped-after-join', 'pid %d status %r' % (pid, status))
        for name in ('Supervisor', 'TaskHandler', 'ResultHandler'):
            st = snap['threads'].get(name)
            if pc.get('threads', True) and st is not None and st != 'done':
                bad('C07.p', 'thread-running-after-join:%s' % name, 'state %s' % st)


# ---------------------------------------------------------------------- C08
def judge_C08(W, ex):
    k = W.k
    bad = W.bad
    for tc in W.term_calls:
        dur = tc['t1'][1] - tc['t0'][1]
        if dur > 60.0:
            bad('C08.t', 'terminate-slow:%s' % tc['how'], 'terminate() took %.1f simulated seconds' % dur)
        for pid, (dead, reaped, status) in tc['snap']['workers'].items():
            if not dead:
                bad('C08.p', 'worker-alive-after-terminate:%s' % tc['how'], 'pid %d' % pid)
        for name, st in (tc.get('snap_late') or tc['snap'])['threads'].items():
            if st != 'done' and (name != 'Supervisor' or 'snap_late' in tc):
                bad('C08.p', 'thread-running-after-terminate:%s' % name, 'how=%s state %s' % (tc['how'], st))
    # a worker that receives a termination signal stops its task, runs its exit callback and exits
    delivered = {}      # pid -> (step, sig, label)
    for e in k.log:
        if e[2] == 'sig-deliver' and e[4] in TERMSIGS and e[3] in W.workers and e[3] not in delivered:
            delivered[e[3]] = (e[0], e[4], e[5])
    for pid, (step, sig, label) in delivered.items():
        w = W.workers[pid]
        p = w['proc']
        if label == 'sleep' and not p.info.get('executing'):
            k.probe('signalled_during_exit_sleep')
        later_ticks = [e for e in k.log if e[0] > step and e[2] in ('tick', 'exec-begin') and e[1].startswith('W%d.' % pid)]
        if later_ticks:
            what = 'took-another-job' if any(e[2] == 'exec-begin' for e in later_ticks) else 'kept-running-its-task'
            bad('C08.s', 'signalled-worker-%s' % what,
                'worker %d got signal %d at step %d (%s) and later %s (%d more task steps)'
                % (pid, sig, step, label, what, len(later_ticks)))
        if not p.dead:
            bad('C08.s', 'signalled-worker-still-alive', 'worker %d got signal %d at step %d' % (pid, sig, step))
        elif p.status[0] == 'exit' and 'on_exit' not in p.info and p.status != ('exit', 70):
            bad('C08.s', 'exit-callback-not-run', 'worker %d got signal %d, exited %r without running on_exit'
                % (pid, sig, p.status))
        t_sig = w.get('term_delivered_at')
        if p.dead and t_sig is not None and p.death_time is not None and p.death_time - t_sig > 10.0 and \
                W.case['prop'] == 'C08':
            # "promptly": the exit path costs about a second; half a minute means it waited for something
            bad('C08.s', 'signalled-worker-lingered:%s' % guard_cause(W, pid),
                'worker %d got signal %d and exited %.1fs later' % (pid, sig, p.death_time - t_sig))


# ---------------------------------------------------------------------- C09
def g_begin(k, g):
    """Earliest simulated instant at which the guard wait recorded as `g` can have begun: the record carries its
    length, the worker is gone within a second and a half of its end."""
    p = k.procs.get(g[3])
    t_end = p.death_time if p is not None and p.death_time is not None else k.now
    return t_end - g[5] - 1.5


def judge_C09(W, ex):
    k = W.k
    bad = W.bad
    pc = W.case['pool']
    quota = pc.get('maxtasksperchild')
    memlim = pc.get('max_memory_per_child')
    if W.case['prop'] != 'C09':
        return
    term_step = W.term_calls[0]['t0'][0] if W.term_calls else k.steps + 1
    nexec = {}
    for uid, runs in ex.items():
        for d in runs:
            nexec[d['pid']] = nexec.get(d['pid'], 0) + 1
    ready_count = {}
    for pid, msgs in W.msgs_out.items():
        ready_count[pid] = sum(1 for m in msgs if m[2] == READY)
    for pid, w in W.workers.items():
        p = w['proc']
        n = ready_count.get(pid, 0)
        if quota and n > quota:
            bad('C09.q', 'quota-exceeded', 'worker %d completed %d jobs, quota %d' % (pid, n, quota))
        if p.status == ('exit', EX_RECYCLE):
            k.probe('worker_recycled')
            hit_mem = memlim and p.rss > memlim
            if hit_mem:
                k.probe('memory_limit_exit')
            if not hit_mem and (not quota or n != quota) and not p.info.get('executing'):
                bad('C09.q', 'recycle-status-without-reason', 'worker %d exited with the recycle status after %d jobs '
                    '(quota %r, rss %r / limit %r)' % (pid, n, quota, p.rss, memlim))
        elif p.status is not None and p.death_step < term_step and W.closed_at is None:
            if quota and n == quota and p.status[0] == 'exit' and not p.info.get('executing') and \
                    p.status[1] in (0, 1):
                bad('C09.q', 'quota-reached-wrong-status', 'worker %d completed its %d jobs and exited with %r'
                    % (pid, quota, p.status))
        for e in k.log:
            if e[2] == 'guard' and e[3] == pid and not e[4] and e[5] >= 25.0 and e[0] < term_step:
                bad('C09.g', 'recycled-worker-waited-out-guard:%s' % guard_cause(W, pid),
                    'worker %d waited %.1fs for its results to be consumed' % (pid, e[5]))
    # leaving on schedule (quota, memory limit, sentinel) is not a restart: as long as no worker has ended any other
    # way and nobody resized the pool, the restart limiter has nothing to count
    first = next((e for e in k.log if e[2] == 'rs-step'), None)
    if first is not None and not any(o[0] in ('grow', 'shrink') for u in W.case['users'] for o in u):
        other = [pid for pid, w in W.workers.items()
                 if w['proc'].status is not None and w['proc'].death_step < first[0] and
                 w['proc'].status not in (('exit', 0), ('exit', EX_RECYCLE))]
        if not other:
            bad('C09.r', 'restart-budget-charged-for-scheduled-exit',
                'the restart limiter was stepped (%s) at step %d although every worker that had ended by then left '
                'with status 0 or the recycle status' % (first[9], first[0]))
    # each program executed exactly once unless its worker died inside it
    for uid, runs in ex.items():
        if len(runs) > 1:
            bad('C09.j', 'job-executed-twice', 'input %r executed by %r' % (uid, [d['pid'] for d in runs]))
    for chk in W.size_checks:
        if chk['state'] == 0 and k.host_exit is None:
            if chk['len'] != chk['processes']:
                why = ''
                if chk['len'] > chk['processes']:
                    # workers that shrink() dismissed before the snapshot and that are still there because they
                    # wait out their result-consumption guard: the excess is theirs, for the reason the guard has
                    linger = {}
                    for pid in chk.get('pids', ()):
                        dismissed = any(e[2] == 'kill' and e[3] == pid and e[4] == 15 and e[1].endswith('.user')
                                        and e[0] < chk['step'] for e in k.log)
                        g = next((e for e in k.log if e[2] == 'guard' and e[3] == pid and not e[4] and
                                  e[5] >= 25.0 and e[0] > chk['step']), None)
                        if dismissed and g is not None and chk['time'] >= g_begin(k, g):
                            linger[pid] = guard_cause(W, pid)
                    if linger and chk['len'] - len(linger) == chk['processes'] and len(set(linger.values())) == 1:
                        why = ':dismissed-worker-waits-out-guard:' + list(linger.values())[0]
                bad('C09.a', 'size-at-rest:%s%s' % ('below' if chk['len'] < chk['processes'] else 'above', why),
                    'at rest the pool holds %d workers, target %d (grow/shrink-adjusted %d)'
                    % (chk['len'], chk['processes'], chk['target']))
            if len(set(chk['indices'])) != len(chk['indices']):
                bad('C09.a', 'duplicate-slot-index', 'indices %r' % (chk['indices'],))


# ---------------------------------------------------------------------- C10
def judge_C10(W, ex):
    bad = W.bad
    if W.case['prop'] != 'C10':
        return
    for chk in W.slot_checks:
        if chk['unresolved']:
            continue
        if chk['value'] != chk['bound']:
            why = []
            if any(r.opts.get('bad_arg') for r in W.jobs.values()):
                why.append('send-failure')
            if any(r.first and not r.res._success and exc_of(r.res._value)[0] == 'TimeLimitExceeded'
                   for r in W.jobs.values() if r.kind == 'apply' and r.res is not None and r.first):
                why.append('hard-limit')
            if any(w['proc'].dead for w in W.workers.values()):
                why.append('worker-exit')
            bad('C10.q', 'slots-not-all-free-at-rest:%s' % ('+'.join(why) or 'plain'),
                'all jobs resolved, semaphore value %d, bound %d' % (chk['value'], chk['bound']))
        if chk.get('processes') is not None and chk['bound'] != chk['processes']:
            # one slot per worker of the configured size (as adjusted by grow and the shrinks that took effect)
            bad('C10.q', 'bound-differs-from-pool-size', 'at rest the semaphore bound is %d, the pool size %d'
                % (chk['bound'], chk['processes']))


# ---------------------------------------------------------------------- C11
def judge_C11(W, ex):
    k = W.k
    bad = W.bad
    pc = W.case['pool']
    if W.case['prop'] != 'C11':
        return
    maxR, maxT = pc.get('max_restarts'), pc.get('max_restart_freq') or 1
    t0 = k.cfg.get('t0', 1000.0)
    # history: Supervisor reaps (time, status) ; worker starts (time) ; acceptances consumed (time)
    sup = [e for e in k.log if 'Supervisor' in e[1]]
    events = []
    for e in k.log:
        if e[2] == 'reaped' and 'Supervisor' in e[1]:
            events.append((e[0], 'exit', e[4]))
        elif e[2] == 'worker-start' and 'Supervisor' in e[1]:
            events.append((e[0], 'start', e[3]))
    accept_steps = sorted(c[0] for r in W.jobs.values() for c in r.cbs if c[2] == 'acc')
    refused = [e for e in k.log if e[2] == 'host-signal' and e[3] == 15]
    if refused:
        k.probe('restart_limit_hit')
    # reference model of the limiter, driven by the abnormal exits the supervisor reaped
    time_of = {}
    for e in k.log:
        time_of[e[0]] = None
    # we need simulated times: take them from the 'sleep' log of the supervisor (recorded with now)
    now_at = {}
    last_now = t0
    for e in k.log:
        if e[2] == 'sleep':
            last_now = e[4]
        now_at[e[0]] = last_now
    passes = [e for e in k.log if e[2] == 'sleep' and 'Supervisor' in e[1]]
    R, Tw = 0, None
    burst_passes = 10
    npass = 0
    ai = 0
    i = 0
    model_refused = False
    # group reaps by supervision pass: a pass = reaps followed by starts before the next supervisor sleep
    seq = []
    for e in k.log:
        if 'Supervisor' in e[1] and e[2] in ('reaped', 'worker-start', 'sleep'):
            seq.append(e)
    cur_exits = []
    actual_starts = 0
    for e in seq:
        if e[2] == 'reaped':
            cur_exits.append(e)
        elif e[2] == 'worker-start':
            actual_starts += 1
        elif e[2] == 'sleep':
            npass += 1
            if cur_exits and npass > burst_passes + 1:
                now = e[4]
                while ai < len(accept_steps) and accept_steps[ai] <= cur_exits[0][0]:
                    R = 0
                    ai += 1
                for x in cur_exits:
                    st = x[4]
                    abnormal = not (st[0] == 'exit' and st[1] in (0, EX_RECYCLE))
                    if not abnormal:
                        continue
                    if Tw is not None and now - Tw >= maxT:
                        Tw, R = now, 0
                    elif maxR and R >= maxR:
                        model_refused = True
                        R = 0
                    if Tw is None:
                        Tw = now
                    R += 1
            cur_exits = []
    W.subj('abnormal_restarts', R)
    if refused and not model_refused and npass > burst_passes + 1:
        # only flag when the history leaves no doubt: fewer abnormal exits than the budget in the whole run
        abn = sum(1 for e in seq if e[2] == 'reaped' and not (e[4][0] == 'exit' and e[4][1] in (0, EX_RECYCLE)))
        if maxR and abn <= maxR and abn < 10 * pc['processes']:
            bad('C11.r', 'refused-within-budget', 'RestartFreqExceeded after %d abnormal exits, budget %d per %.1fs'
                % (abn, maxR, maxT))
    # too many admitted: abnormal-exit replacements within one window with no acceptance in between
    starts = [(e[0], now_at.get(e[0], t0)) for e in seq if e[2] == 'worker-start']
    abn_reaps = [(e[0], now_at.get(e[0], t0)) for e in seq if e[2] == 'reaped' and
                 not (e[4][0] == 'exit' and e[4][1] in (0, EX_RECYCLE))]
    if maxR and not refused:
        # sliding check on reaps after the start-up phase
        late = [r for r in abn_reaps if r[1] > t0 + 2.5]
        for a in range(len(late)):
            win = [r for r in late[a:] if r[1] - late[a][1] < maxT - 1e-9]
            if len(win) > maxR + 0 and not any(late[a][0] < s <= win[-1][0] for s in accept_steps):
                # window opened by the first of them: more than maxR admitted without RestartFreqExceeded
                if len(win) > maxR:
                    bad('C11.r', 'restarts-above-budget', '%d abnormal exits replaced within %.2fs (budget %d per %.1fs), '
                        'no job accepted in between, no RestartFreqExceeded' % (len(win), win[-1][1] - late[a][1], maxR, maxT))
                    break


def judge_C11b(W, ex):
    """The limiter as the pool drives it, against a model written from the property text.

    Inputs of the model: the instants at which the pool asked for a restart (every rs-step record, made
    by the wrapper around restart_state.step) and the instants at which a job was accepted (accept
    callbacks: ResultHandler.on_ack zeroes the counter right before running them)."""
    k = W.k
    bad = W.bad
    if W.case['prop'] != 'C11':
        return
    steps = [e for e in k.log if e[2] == 'rs-step']
    models = {}
    reset_seen = False
    for e in k.log:
        if e[2] == 'rs-reset':
            # an accept message was consumed: the result handler zeroed the count of this limiter
            reset_seen = True
            if e[3] in models:
                models[e[3]]['count'] = 0
            continue
        if e[2] == 'ack-begin':
            reset_seen = False
            continue
        if e[2] == 'ack-end':
            # "the count starts afresh when ... a job has been accepted": while the parent handled this accept
            # message the count must have been zeroed - whether or not the job is still wanted by anybody
            if not reset_seen:
                bad('C11.r', 'accept-did-not-reset-count', 'the accept message of job id %r part %r was handled '
                    '(step %d) without the restart count being zeroed' % (e[3], e[4], e[0]))
            continue
        if e[2] != 'rs-step':
            continue
        st, serial, maxR, maxT, Rb, Tb, now, outcome = e[0], e[3], e[4], e[5], e[6], e[7], e[8], e[9]
        m = models.setdefault(serial, {'count': 0, 'start': None,
                                       'burst': maxT == 1 and maxR == 10 * W.case['pool']['processes']})
        if m['start'] is not None and now - m['start'] >= maxT:
            m['start'], m['count'] = None, 0
        if maxR and m['count'] >= maxR:
            expect = 'refused'
            m['count'] = 0
        else:
            expect = 'admitted'
        if expect == 'admitted':
            if m['start'] is None:
                m['start'] = now
            m['count'] += 1
        if outcome != expect:
            kindl = 'burst' if maxT == 1 and maxR == 10 * W.case['pool']['processes'] else 'configured'
            bad('C11.r', 'limiter-%s-should-have-%s:%s' % (outcome, expect, kindl),
                'restart request at t=%.3f: limiter (budget %r per %rs, count %r, window start %r) %s it; the '
                'model (%d admitted in the current window) says %s' % (now, maxR, maxT, Rb, Tb, outcome,
                                                                        m['count'], expect))
            break
    # the pool consults the limiter once per abnormal exit, never for clean/recycle exits, and does not fork
    # after a refusal
    seq = [e for e in k.log if 'Supervisor' in e[1] and e[2] in ('repopulate', 'worker-start', 'sleep', 'rs-step')]
    cur = {'abn': 0, 'clean': 0, 'steps': 0, 'refused': False}
    for e in seq:
        if e[2] == 'repopulate':
            cur['running'] = (e[5] == 0)
            # exit codes of the workers reaped in this pass, as the pool itself decoded them
            for code in e[3][:max(0, e[4])]:
                if code in (0, EX_RECYCLE):
                    cur['clean'] += 1
                else:
                    cur['abn'] += 1
            if e[4] > len(e[3]):
                # workers missing for another reason (reaped outside the pass, grow): the property is silent
                cur['extra'] = cur.get('extra', 0) + e[4] - len(e[3])
        elif e[2] == 'rs-step':
            cur['steps'] += 1
            if e[9] == 'refused':
                cur['refused'] = True
                # "raises RestartFreqExceeded instead of forking": the refused replacement was not started either
                if cur.get('starts', 0) > cur.get('admitted', 0) + cur['clean'] + cur.get('extra', 0) and \
                        not W.resize_seen():
                    bad('C11.r', 'forked-before-admission', 'in one pass %d workers were started with %d restarts '
                        'admitted (%d clean exits) when the limiter refused' % (cur['starts'], cur.get('admitted', 0),
                                                                              cur['clean']))
            else:
                cur['admitted'] = cur.get('admitted', 0) + 1
        elif e[2] == 'worker-start':
            cur['starts'] = cur.get('starts', 0) + 1
            if cur['refused']:
                bad('C11.r', 'forked-after-refusal', 'a worker was started after RestartFreqExceeded in the same pass')
        elif e[2] == 'sleep':
            if cur['steps'] > cur['abn'] + cur.get('extra', 0) and not cur['refused'] and not W.resize_seen():
                bad('C11.r', 'limiter-consulted-for-clean-exit',
                    'pass with %d abnormal and %d clean/recycle exits asked the limiter %d times'
                    % (cur['abn'], cur['clean'], cur['steps']))
            ended = [W.closed_at[0]] if W.closed_at else []
            ended += [tc['t0'][0] for tc in W.term_calls]
            if cur['steps'] < cur['abn'] and not cur['refused'] and cur.get('running') and \
                    not any(s <= e[0] for s in ended):
                bad('C11.r', 'limiter-not-consulted', 'pass with %d abnormal exits asked the limiter %d times'
                    % (cur['abn'], cur['steps']))
            cur = {'abn': 0, 'clean': 0, 'steps': 0, 'refused': False}
    W.subj('limiter_requests', len(steps))


# ---------------------------------------------------------------------- C12
def judge_C12(W, ex):
    k = W.k
    bad = W.bad
    for uid, rec in W.jobs.items():
        if rec.kind != 'apply' or not rec.returned_handle or rec.prog is None:
            continue
        nat = natural_static(rec.prog, uid)
        res = rec.res
        if nat[0] == 'unpicklable' and res.ready() and W.case['prop'] == 'C12':
            k.probe('unpicklable_result')
            if res._success:
                bad('C12.m', 'unserialisable-result-delivered', 'job %r' % uid)
            else:
                tname = exc_of(res._value)[0]
                if tname != 'MaybeEncodingError' and tname not in POOL_MADE:
                    bad('C12.m', 'unserialisable-result-wrong-error:%s' % tname, 'job %r' % uid)
            for d in ex.get(uid, ()):
                w = W.workers.get(d['pid'])
                tstep = W.term_calls[0]['t0'][0] if W.term_calls else k.steps
                if w and w['proc'].dead and w['proc'].death_step < min(tstep, (W.closed_at or (k.steps,))[0]) and \
                        w['proc'].status not in (('exit', EX_RECYCLE),):
                    bad('C12.m', 'worker-died-on-unserialisable-result', 'job %r: worker %d status %r'
                        % (uid, d['pid'], w['proc'].status))
        if W.case['prop'] == 'C12' and nat[0] == 'exc' and res.ready() and not res._success:
            tname, args, exc, einfo = exc_of(res._value)
            if tname != nat[1] or (nat[2] is not None and args != nat[2]):
                bad('C12.a', 'exception-changed:%s' % nat[1], 'job %r: expected %r got %s%r' % (uid, nat, tname, args))


def subject_occurred(W, prop, ex):
    k = W.k
    pr = k.probes
    if prop == 'C01':
        return len(W.jobs) > 0
    if prop == 'C02':
        return len(W.jobs) > 0
    if prop == 'C03':
        return any(W.msgs_out.values())
    if prop == 'C04':
        return pr.get('worker_died_in_task', 0) > 0
    if prop == 'C05':
        return W.subjects.get('hard_limited_jobs', 0) > 0
    if prop == 'C06':
        return pr.get('soft_limit_fired', 0) > 0
    if prop == 'C07':
        return W.closed_at is not None and 'join_ret' in W.marks
    if prop == 'C08':
        return bool(W.term_calls) or pr.get('operator_signal', 0) > 0
    if prop == 'C09':
        return pr.get('worker_recycled', 0) > 0 or pr.get('grow', 0) + pr.get('shrink', 0) > 0 or W.any_worker_exit
    if prop == 'C10':
        return bool(W.slot_checks)
    if prop == 'C11':
        return any(w['proc'].dead for w in W.workers.values())
    if prop == 'C12':
        return any(r.first and not r.res._success for r in W.jobs.values() if r.kind == 'apply' and r.res is not None)
    return True
