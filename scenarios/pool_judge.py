"""Oracle clauses C01-C12 evaluated over the recorded history of an S-POOL run."""
import traceback as _tb

from .common import V
from . import pooltask as T
from .pool_oracles import exc_of, POOL_MADE, ACK, READY, DEATH

RECURSION_LIMIT_DEPTH = 900


def natural_static(prog, uid):
    """Outcome of a fault-free program: ('ret', value) | ('exc', name, args) | ('unpicklable',) | ('other',)."""
    for ins in prog:
        op = ins[0]
        if op in ('tick', 'sleep', 'rss'):
            continue
        if op == 'ret':
            return ('ret', ('v', uid, ins[1]))
        if op == 'raise':
            return ('exc', ins[1], ('boom', uid))
        if op == 'recurse':
            if ins[1] >= RECURSION_LIMIT_DEPTH:
                return ('exc', 'RecursionError', None)
            return ('exc', ins[2], ('deep', uid))
        if op in ('unpicklable', 'nested_unpicklable'):
            return ('unpicklable',)
        return ('other',)
    return ('ret', ('v', uid, None))


def part_index(W, rec):
    """uid of each part (chunk) of a job: list of lists of item uids, in chunk order."""
    if rec.kind == 'apply':
        return [[rec.uid]]
    items = [it[0] for it in rec.items]
    cs = rec.chunksize
    if rec.kind in ('map', 'starmap'):
        if cs is None:
            n = len(items)
            cs, extra = divmod(n, rec.pool_size_at_submit * 4)
            if extra:
                cs += 1
        if len(items) == 0:
            return []
    cs = cs or 1
    return [items[i:i + cs] for i in range(0, len(items), cs)]


def owners_info(W, rec):
    """Per part index: list of (pid, ack_step, ready_step or None) from the wiretap."""
    out = {}
    jid = rec.jobid
    for pid, msgs in W.msgs_out.items():
        for (step, t, kind, args) in msgs:
            if kind == ACK and args[0] == jid:
                out.setdefault(args[1], []).append([pid, step, None, t])
            elif kind == READY and args[0] == jid:
                for ent in out.get(args[1], ()):
                    if ent[0] == pid and ent[2] is None:
                        ent[2] = step
    return out


def job_story(W, rec, ex):
    """Discriminating facts about what happened to a job (used in signatures)."""
    tags = set()
    if rec.opts.get('bad_arg'):
        tags.add('badarg')
    uids = [rec.uid] if rec.kind == 'apply' else [it[0] for it in rec.items]
    for u in uids:
        for d in ex.get(u, ()):
            p = W.workers.get(d['pid'])
            if p is not None and p['proc'].dead and d['end'] is None:
                st = p['proc'].status
                tags.add('died-in-task')
    if W.case['pool'].get('maxtasksperchild'):
        tags.add('recycling')
    if W.case['pool'].get('timeout') or rec.opts.get('timeout'):
        tags.add('hardlimit')
    if W.case['pool'].get('soft_timeout') or rec.opts.get('soft_timeout'):
        tags.add('softlimit')
    if not W.case['pool'].get('threads', True):
        tags.add('nothreads')
    return '+'.join(sorted(tags)) or 'plain'


def judge(W):
    k = W.k
    case = W.case
    prop = case['prop']
    P = W.P
    ex = W.exec_log()
    bad = W.bad
    pool = W.pool

    # ---------------------------------------------------------------- general
    for a in k.actors:
        if a.exc is not None:
            bad(prop + '.x', 'actor-exception:%s:%s' % (a.kind, type(a.exc).__name__),
                '%s: %r\n%s' % (a.name, a.exc, ''.join(_tb.format_exception(type(a.exc), a.exc, a.exc.__traceback__))[-900:]))
    if k.host_exit is not None:
        who = '?'
        for e in k.log:
            if e[2] == 'death' and e[3] == k.root.pid:
                who = e[1].split('.')[-1]
        crash = [e for e in k.log if e[2] == 'actor-crash']
        bad('C01.f', 'host-exit:by-%s:%s' % (who, k.host_exit[0]),
            'a pool thread took the host process down: status %r (thread %s)' % (k.host_exit, who))
        bad(prop + '.f', 'host-exit:by-%s:%s' % (who, k.host_exit[0]),
            'a pool thread took the host process down: status %r (thread %s)' % (k.host_exit, who))
    end = k.end_reason
    if end not in ('quiescent', 'host-exit'):
        ua = [a for a in k.actors if a.name == 'P0.user']
        where = W.marks.get('cur_op', '?')
        lab = ua[0].label.split(':')[0] if ua and ua[0].state != 'done' else 'user-done'
        clause = {'join': 'C07', 'terminate': 'C08', 'close': 'C07'}.get(where, prop)
        bad(clause + '.live', 'stuck:%s:in-%s:%s' % (end, where, job_story_pool(W)),
            'run ended by %s while the user was in %s (%s); blocked actors: %r'
            % (end, where, lab, k.blocked_report()[:6]))
        if clause != prop:
            bad(prop + '.live', 'stuck:%s:in-%s:%s' % (end, where, job_story_pool(W)),
                'run ended by %s while the user was in %s' % (end, where))

    # ---------------------------------------------------------------- C01 / C02 / C04 per job
    cache_ids = set(pool._cache.keys()) if pool is not None else set()
    for uid, rec in W.jobs.items():
        if rec.after_close:
            if rec.returned_handle:
                bad('C07.c', 'accepted-after-close:%s' % rec.kind, 'job %r submitted after close() got a handle' % uid)
            continue
        if not rec.returned_handle:
            continue
        story = job_story(W, rec, ex)
        nok = sum(1 for c in rec.cbs if c[1] == 'ok')
        nerr = sum(1 for c in rec.cbs if c[1] == 'err')
        if nok + nerr > 1:
            bad('C01.b', 'callbacks-fired-twice:%s:%s' % (rec.kind, story),
                'job %r: success callbacks %d, error callbacks %d' % (uid, nok, nerr))
        if rec.discarded:
            continue
        res = rec.res
        owners = owners_info(W, rec)
        if rec.kind in ('imap', 'imap_unordered'):
            judge_imap(W, rec, ex, owners, story)
            continue
        if not res.ready():
            if end in ('quiescent', 'deadlock', 'horizon') and W.marks.get('drain_end') or end == 'quiescent':
                bad('C01.a', 'unresolved:%s:%s' % (rec.kind, story),
                    'job %r (%s) never reached a terminal outcome; observed %r' % (uid, rec.kind, rec.observed[-2:]))
            continue
        if rec.jobid in cache_ids and all_accepted(res) and end == 'quiescent':
            bad('C01.g', 'cache-leak:%s:%s' % (rec.kind, story), 'job %r resolved and accepted but still cached' % uid)
        if res._success:
            check_value(W, rec, res._value, ex, story)
            if nerr:
                bad('C01.b', 'error-callback-on-success:%s' % rec.kind, 'job %r' % uid)
        else:
            tname, args, exc, einfo = exc_of(res._value)
            check_failure(W, rec, tname, args, exc, einfo, ex, owners, story)
            if nok:
                bad('C01.b', 'success-callback-on-failure:%s' % rec.kind, 'job %r' % uid)
            if prop == 'C12' or True:
                check_einfo(W, rec, tname, args, exc, einfo, story)

    if prop == 'C02':
        judge_C02(W, ex)
    judge_C07(W, ex)
    nontrivial = k.n_decisions > 0 and subject_occurred(W, prop, ex)
    return W.viol, nontrivial


def job_story_pool(W):
    pc = W.case['pool']
    tags = []
    if any(r.kind != 'apply' for r in W.jobs.values()):
        tags.append('maps')
    if pc.get('maxtasksperchild'):
        tags.append('recycling')
    if pc.get('timeout') or pc.get('soft_timeout'):
        tags.append('limits')
    if not pc.get('threads', True):
        tags.append('nothreads')
    if any(w['proc'].dead and w['proc'].info.get('executing') for w in W.workers.values()):
        tags.append('died-in-task')
    return '+'.join(tags) or 'plain'


def all_accepted(res):
    try:
        return bool(res.accepted())
    except Exception:     # noqa
        return False


def check_value(W, rec, value, ex, story):
    if rec.kind == 'apply':
        rets = [d['ret'] for d in ex.get(rec.uid, ()) if d['has_ret']]
        if value not in rets:
            W.bad('C01.d', 'foreign-value:apply:%s' % story,
                  'job %r resolved with %.80r which no execution of it returned (%r)' % (rec.uid, value, rets))
    else:
        uids = [it[0] for it in rec.items]
        if not isinstance(value, list) or len(value) != len(uids):
            W.bad('C02.m', 'map-result-shape:%s' % rec.kind,
                  'job %r: result %.120r for %d inputs' % (rec.uid, value, len(uids)))
            return
        for pos, (u, v) in enumerate(zip(uids, value)):
            rets = [d['ret'] for d in ex.get(u, ()) if d['has_ret']]
            if v not in rets:
                W.bad('C02.m', 'map-slot-wrong:%s' % rec.kind,
                      'job %r position %d holds %.60r, executions of that input returned %r (chunksize %r, %d inputs)'
                      % (rec.uid, pos, v, rets, rec.chunksize, len(uids)))
                W.bad('C01.d', 'foreign-value:%s:%s' % (rec.kind, story), 'job %r position %d' % (rec.uid, pos))
                break


def check_failure(W, rec, tname, args, exc, einfo, ex, owners, story):
    k = W.k
    uid = rec.uid
    uids = [uid] if rec.kind == 'apply' else [it[0] for it in rec.items]
    if tname in ('WorkerLostError', 'Terminated'):
        # attribution: some worker accepted a part, never completely wrote its result, and is dead
        first = rec.first[0] if rec.first else k.steps
        ok = False
        for i, ents in owners.items():
            for pid, ack_step, ready_step, _t in ents:
                w = W.workers.get(pid)
                if w and ready_step is None and w['proc'].dead and w['proc'].death_step <= first:
                    ok = True
        if not ok:
            finished_dead = sorted(set((W.workers[pid]['proc'].status) for ents in owners.values()
                                       for pid, a, r, _t in ents
                                       if r is not None and pid in W.workers and W.workers[pid]['proc'].dead))
            W.bad('C01.d', 'lost-without-dead-owner:%s:%s' % (rec.kind, story),
                  'job %r failed %s(%r) but no worker holding an unfinished part of it had exited; '
                  'owners that had finished their part and exited: %r' % (uid, tname, args, finished_dead))
            W.bad('C04.b', 'lost-without-dead-owner:%s:%s' % (rec.kind, story),
                  'job %r failed %s(%r) but no worker holding an unfinished part of it had exited; '
                  'owners that had finished their part and exited: %r' % (uid, tname, args, finished_dead))
        return
    if tname == 'TimeLimitExceeded':
        if not (W.case['pool'].get('timeout') or rec.opts.get('timeout')):
            W.bad('C01.d', 'timelimit-without-limit:%s' % rec.kind, 'job %r' % uid)
            W.bad('C05.d', 'timelimit-without-limit:%s' % rec.kind, 'job %r' % uid)
        return
    if rec.opts.get('bad_arg'):
        if tname != 'TypeError' or not args or 'cannot pickle' not in str(args[0]):
            W.bad('C01.d', 'send-failure-wrong-error', 'job %r: %s%r' % (uid, tname, args))
        return
    if tname == 'MaybeEncodingError':
        if not any(d['ret'] == 'unpicklable' for u in uids for d in ex.get(u, ())):
            W.bad('C01.d', 'encoding-error-foreign:%s' % rec.kind, 'job %r' % uid)
        return
    # a task-made exception: some execution of one of this job's own inputs raised it
    raised = [(u, d['exc']) for u in uids for d in ex.get(u, ()) if d['exc']]
    if tname not in [r[1] for r in raised]:
        W.bad('C01.d', 'foreign-failure:%s:%s:%s' % (rec.kind, tname, story),
              'job %r failed with %s%r; its own executions raised %r' % (uid, tname, args, raised))
        return
    if args and len(args) > 1 and isinstance(args[1], int) and args[1] not in uids:
        W.bad('C01.d', 'foreign-failure-args:%s' % rec.kind,
              'job %r failed with %s%r which belongs to another job' % (uid, tname, args))


def check_einfo(W, rec, tname, args, exc, einfo, story):
    """C12: the record that reaches the caller."""
    if not hasattr(einfo, 'traceback'):
        W.bad('C12.a', 'no-exception-record:%s' % rec.kind, 'job %r: value %r' % (rec.uid, einfo))
        return
    try:
        txt = ''.join(_tb.format_exception(einfo.type, exc, einfo.tb))
    except Exception as e:       # noqa
        W.bad('C12.b', 'tb-not-formattable:%s' % tname, 'job %r: %r' % (rec.uid, e))
        return
    n = 0
    t = einfo.tb
    while t is not None and n < 10000:
        n += 1
        t = t.tb_next
    from billiard.einfo import DEFAULT_MAX_FRAMES
    if n > DEFAULT_MAX_FRAMES + 3:
        W.bad('C12.b', 'tb-depth-unbounded', 'job %r: %d traceback nodes' % (rec.uid, n))
    if einfo.type is None or einfo.type.__name__ != tname:
        W.bad('C12.a', 'type-mismatch', 'job %r: record type %r, exception %s' % (rec.uid, einfo.type, tname))


def judge_imap(W, rec, ex, owners, story):
    k = W.k
    res = rec.res
    if rec.observed and rec.observed[-1][1] == 'timeout':
        W.bad('C01.a', 'unresolved:%s:%s' % (rec.kind, story),
              'iterator of job %r stopped delivering: %r' % (rec.uid, [(o[1]) for o in rec.observed][-4:]))
        if 'died-in-task' in story:
            W.bad('C04.e', 'loss-not-reported:%s' % rec.kind,
                  'job %r: a worker died inside an item and the iterator never reported it' % rec.uid)
    for o in rec.observed:
        if o[1] == 'err':
            e = o[2]
            inner = e.args[0] if e.args else None
            tname, args, exc, einfo = exc_of(inner)
            if tname in ('WorkerLostError', 'Terminated'):
                first = o[0]
                ok = False
                for i, ents in owners.items():
                    for pid, ack_step, ready_step, _t in ents:
                        w = W.workers.get(pid)
                        if w and ready_step is None and w['proc'].dead and w['proc'].death_step <= first:
                            ok = True
                if not ok:
                    W.bad('C01.d', 'lost-without-dead-owner:%s:%s' % (rec.kind, story), 'job %r' % rec.uid)
                    W.bad('C04.b', 'lost-without-dead-owner:%s:%s' % (rec.kind, story), 'job %r' % rec.uid)


def _cause_ok(exc):
    c = getattr(exc, '__cause__', None)
    return c is not None and type(c).__name__ == 'RemoteTraceback' and 'pooltask.py' in str(c) and \
        ('_run' in str(c) or '_recurse' in str(c))


def judge_C02(W, ex):
    bad = W.bad
    for uid, rec in W.jobs.items():
        if not rec.returned_handle or rec.discarded or rec.after_close:
            continue
        obs = [o for o in rec.observed if o[1] != 'timeout']
        if rec.kind == 'apply':
            nat = natural_static(rec.prog, uid)
            if not obs:
                bad('C02.a', 'apply-no-result', 'job %r: %r' % (uid, rec.observed))
                continue
            o = obs[-1]
            if nat[0] == 'ret':
                if o[1] != 'ok' or o[2] != nat[1]:
                    bad('C02.a', 'apply-wrong-value', 'job %r: expected %r got %r' % (uid, nat[1], o[1:]))
            elif nat[0] == 'exc':
                if o[1] != 'err' or type(o[2]).__name__ != nat[1] or (nat[2] is not None and o[2].args != nat[2]):
                    bad('C02.a', 'apply-wrong-exception:%s' % nat[1], 'job %r: expected %r got %r' % (uid, nat, o[1:]))
                elif not _cause_ok(o[2]):
                    bad('C02.a', 'apply-no-remote-traceback:%s' % nat[1],
                        'job %r: __cause__ = %r' % (uid, getattr(o[2], '__cause__', None)))
            continue
        items = rec.items
        nats = [natural_static(it[1], it[0]) for it in items]
        failing = [i for i, n in enumerate(nats) if n[0] == 'exc']
        if failing:
            W.k.probe('map_with_failing_item')
        if rec.kind in ('map', 'starmap'):
            if not obs:
                bad('C02.m', 'map-no-result:%s' % rec.kind, 'job %r: %r' % (uid, rec.observed))
                continue
            o = obs[-1]
            if not failing:
                exp = [n[1] for n in nats]
                if o[1] != 'ok' or o[2] != exp:
                    bad('C02.m', 'map-wrong-result:%s' % rec.kind,
                        'job %r chunksize %r: expected %.100r got %.100r' % (uid, rec.chunksize, exp, o[1:]))
            else:
                if o[1] != 'err':
                    bad('C02.m', 'map-failure-not-raised:%s' % rec.kind, 'job %r got %.100r' % (uid, o[1:]))
                else:
                    e = o[2]
                    cands = [nats[i] for i in failing]
                    if not any(type(e).__name__ == c[1] and (c[2] is None or e.args == c[2]) for c in cands):
                        bad('C02.m', 'map-foreign-exception:%s' % rec.kind,
                            'job %r raised %s%r, its failing inputs raise %r' % (uid, type(e).__name__, e.args, cands))
                    elif not _cause_ok(e):
                        bad('C02.m', 'map-no-remote-traceback', 'job %r' % uid)
            continue
        # imap / imap_unordered
        cs = rec.chunksize or 1
        chunks = [list(range(i, min(i + cs, len(items)))) for i in range(0, len(items), cs)]
        exp_events = []
        for ch in chunks:
            f = [i for i in ch if nats[i][0] == 'exc']
            if f:
                exp_events.append(('err', nats[f[0]]))
            else:
                for i in ch:
                    exp_events.append(('ok', nats[i][1]))
        got = []
        for o in obs:
            if o[1] == 'ok':
                got.append(('ok', o[2]))
            elif o[1] == 'err':
                e = o[2]
                inner = e.args[0] if getattr(e, 'args', None) else None
                if not hasattr(inner, 'traceback'):
                    bad('C02.i', 'imap-error-without-record:%s' % rec.kind, 'job %r raised %r' % (uid, e))
                    got.append(('err', None))
                else:
                    tname, args, exc, einfo = exc_of(inner)
                    got.append(('err', ('exc', tname, args)))
            elif o[1] == 'stop':
                got.append(('stop',))
        body = [g for g in got if g[0] != 'stop']
        stopped = bool(got) and got[-1][0] == 'stop'
        if rec.kind == 'imap':
            if body != exp_events[:len(body)]:
                bad('C02.i', 'imap-order-or-value:%s' % ('chunked' if cs > 1 else 'cs1'),
                    'job %r chunksize %d: expected %.160r got %.160r' % (uid, cs, exp_events, body))
            elif len(body) < len(exp_events):
                after_fail = any(g[0] == 'err' for g in body)
                bad('C02.i', 'imap-stops-early:%s:%s' % ('chunked' if cs > 1 else 'cs1',
                                                          'after-failure' if after_fail else 'no-failure'),
                    'job %r chunksize %d: %d of %d events delivered then %s'
                    % (uid, cs, len(body), len(exp_events), 'StopIteration' if stopped else 'nothing'))
        else:
            if sorted(map(repr, body)) != sorted(map(repr, exp_events[:len(body)] if False else exp_events)):
                if len(body) < len(exp_events) and all(repr(b) in set(map(repr, exp_events)) for b in body):
                    after_fail = any(g[0] == 'err' for g in body)
                    bad('C02.i', 'imap_unordered-stops-early:%s:%s' % ('chunked' if cs > 1 else 'cs1',
                                                                        'after-failure' if after_fail else 'no-failure'),
                        'job %r chunksize %d: %d of %d events' % (uid, cs, len(body), len(exp_events)))
                else:
                    bad('C02.i', 'imap_unordered-multiset:%s' % ('chunked' if cs > 1 else 'cs1'),
                        'job %r: expected %.160r got %.160r' % (uid, exp_events, body))
        if len(items) == 0:
            pass
    # empty input never touches a worker
    for uid, rec in W.jobs.items():
        if rec.kind != 'apply' and rec.items is not None and len(rec.items) == 0 and rec.returned_handle:
            for (step, t, kind, args) in [m for ms in W.msgs_out.values() for m in ms]:
                if kind == ACK and args[0] == rec.jobid:
                    bad('C02.e', 'empty-input-reached-worker:%s' % rec.kind, 'job %r' % uid)


def judge_C07(W, ex):
    k = W.k
    bad = W.bad
    if W.closed_at is None:
        return
    pc = W.case['pool']
    # guard exhaustion (recorded by the wrapper around Worker._ensure_messages_consumed)
    for e in k.log:
        if e[2] == 'guard':
            pid, ok, elapsed, completed = e[3], e[4], e[5], e[6]
            if not ok and elapsed >= 25.0:
                k.probe('guard_loop_exhausted')
                term = W.term_calls and W.term_calls[0]['t0'][0] <= e[0]
                if not term:
                    bad('C07.g', 'guard-exhausted:%s' % job_story_pool(W),
                        'worker %d waited out its result-consumption guard (%.1fs, %d completed) although the '
                        'parent kept consuming results' % (pid, elapsed, completed))
    jr = W.marks.get('join_ret')
    if jr is None:
        return
    # every job submitted before close resolved with its real result
    for uid, rec in W.jobs.items():
        if rec.after_close or not rec.returned_handle or rec.discarded:
            continue
        if rec.submitted[0] > W.closed_at[0]:
            continue
        res = rec.res
        if rec.kind in ('imap', 'imap_unordered'):
            if not res.ready() and not (res._length is not None and res._index == res._length):
                bad('C07.a', 'unresolved-at-join:%s:%s' % (rec.kind, job_story_pool(W)), 'job %r' % uid)
            continue
        if not res.ready():
            bad('C07.a', 'unresolved-at-join:%s:%s' % (rec.kind, job_story_pool(W)),
                'job %r submitted before close() is unresolved after join()' % uid)
        elif not res._success:
            tname, args, exc, einfo = exc_of(res._value)
            if tname in POOL_MADE and not any(w['proc'].info.get('executing') for w in W.workers.values()
                                              if w['proc'].dead):
                bad('C07.a', 'pool-made-failure-after-close:%s:%s:%s' % (rec.kind, tname, job_story_pool(W)),
                    'job %r: %s%r' % (uid, tname, args))
    last_res = max([r.first[1] for r in W.jobs.values() if r.first] + [W.closed_at[1]])
    tail = jr[1] - max(last_res, W.closed_at[1])
    if tail >= 25.0 and not W.case.get('sleep_jitter'):
        bad('C07.t', 'join-slow:%s' % job_story_pool(W),
            'join() returned %.1fs after the later of close() and the last resolution' % tail)
    snap = W.marks.get('after_join')
    if snap:
        for pid, (dead, reaped, status) in snap['workers'].items():
            if not dead:
                bad('C07.p', 'worker-alive-after-join', 'pid %d' % pid)
            elif not reaped:
                bad('C07.p', 'worker-not-reaped-after-join:%s' % job_story_pool(W), 'pid %d status %r' % (pid, status))
        for name in ('Supervisor', 'TaskHandler', 'ResultHandler'):
            st = snap['threads'].get(name)
            if pc.get('threads', True) and st is not None and st != 'done':
                bad('C07.p', 'thread-running-after-join:%s' % name, 'state %s' % st)


def subject_occurred(W, prop, ex):
    k = W.k
    s = W.subjects
    if prop == 'C01':
        return len(W.jobs) > 0
    if prop == 'C02':
        return any(r.kind != 'apply' for r in W.jobs.values()) or k.probes.get('map_with_failing_item', 0) > 0 \
            or len(W.jobs) > 0
    if prop == 'C07':
        return W.closed_at is not None and 'join_ret' in W.marks
    return True
