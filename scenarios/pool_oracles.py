"""World: shadow bookkeeping, user operations, wiretap, step invariants and the oracle
clauses of C01-C12 for S-POOL."""
import pickle
import struct
import traceback as _tb

from .common import V, state
from . import pooltask as T

PROBES = [
    'death_reaped_before_ack_consumed', 'ready_in_pipe_when_writer_died', 'two_deaths_one_pass',
    'result_consumed_between_scanner_ready_test_and_set', 'soft_signal_after_program_end',
    'signalled_while_blocked_on_queue_lock', 'signalled_in_own_except', 'signalled_during_exit_sleep',
    'guard_loop_exhausted', 'send_failure', 'send_failure_job2', 'close_while_chunk_in_flight',
    'recycle_while_map_running', 'replacement_started_while_jobs_queued', 'putlock_blocked_submitter',
    'worker_died_in_task', 'worker_recycled', 'hard_limit_fired', 'soft_limit_fired', 'terminate_with_busy_worker',
    'map_with_failing_item', 'imap_out_of_order_completion', 'unpicklable_result', 'restart_limit_hit',
]

ACK, READY, TASK, NACK, DEATH = 0, 1, 2, 3, 4
DRAIN = 250.0
POOL_MADE = ('WorkerLostError', 'Terminated', 'TimeLimitExceeded')


class JobRec:
    def __init__(self, uid, kind):
        self.uid = uid
        self.kind = kind
        self.handle = None
        self.res = None            # the result object that sits in the pool cache
        self.jobid = None
        self.items = None
        self.prog = None
        self.opts = {}
        self.cbs = []              # (step, kind, info)
        self.submitted = None      # (step, time)
        self.returned_handle = False
        self.discarded = False
        self.first = None          # (step, time, success, id(value))
        self.observed = []         # outcomes seen through get()/next()
        self.after_close = False
        self.chunksize = None
        self.nparts = 1


def exc_of(value):
    """Normalise what a failed result holds -> (type name, args, exception object, einfo)."""
    einfo = value
    exc = getattr(einfo, 'exception', einfo)
    inner = getattr(exc, 'exc', None)
    if inner is not None and type(exc).__name__ == 'ExceptionWithTraceback':
        exc = inner
    return type(exc).__name__, getattr(exc, 'args', ()), exc, einfo


class World:
    def __init__(self, k, case, P):
        self.k = k
        self.case = case
        self.P = P
        self.pool = None
        self.jobs = {}
        self.job_by_id = {}
        self.item_owner = {}       # item uid -> job uid
        self.workers = {}          # pid -> dict
        self.host_signals = []
        self.viol = []
        self.subjects = {}
        self.user_errors = []
        self.marks = {}
        self.wire_out = {}         # pid -> bytearray (partial) for the result pipe
        self.msgs_out = {}         # pid -> [(step, time, kind, args)]
        self.closed_at = None
        self.join_ret = None
        self.term_calls = []
        self.target_history = []
        self.target = case['pool']['processes']
        self.stop_evloop = False
        self._sig_seen = set()
        self.ext_faults = list(case.get('ext_faults', []))

    # ------------------------------------------------------------------ helpers
    def bad(self, clause, sig, detail):
        key = (clause, sig)
        if key in self._sig_seen:
            return
        self._sig_seen.add(key)
        self.viol.append(V(clause, sig, detail))

    def subj(self, name, n=1):
        self.subjects[name] = self.subjects.get(name, 0) + n

    def pool_created(self):
        pool = self.pool
        k = self.k
        of = k.root.fds.get(pool._outqueue._reader.fileno())
        self.out_pipe = of.rpipe
        self.out_pipe.tap = self._tap_out
        self.in_pipe = k.root.fds.get(pool._inqueue._writer.fileno()).wpipe

    def on_worker_started(self, child, process_obj):
        self.workers[child.pid] = {'proc': child, 'start_step': self.k.steps, 'start_time': self.k.now,
                                   'index': None}
        self.k.record('worker-start', child.pid)

    # ------------------------------------------------------------------ wiretap (worker -> parent messages)
    def _tap_out(self, pipe, proc, chunk):
        buf = self.wire_out.setdefault(proc.pid, bytearray())
        buf += chunk
        while len(buf) >= 4:
            n, = struct.unpack('!i', bytes(buf[:4]))
            if len(buf) < 4 + n:
                break
            payload = bytes(buf[4:4 + n])
            del buf[:4 + n]
            try:
                msg = pickle.loads(payload)
            except Exception as exc:     # noqa
                msg = ('undecodable', repr(exc))
            if msg is None:
                kind, args = 'sentinel', ()
            else:
                kind, args = msg[0], msg[1]
            self.msgs_out.setdefault(proc.pid, []).append((self.k.steps, self.k.now, kind, args))

    # ------------------------------------------------------------------ callbacks
    def _cb(self, rec, kind):
        def cb(*a, **kw):
            rec.cbs.append((self.k.steps, kind, (a[:2] if kind == 'acc' else None, kw if kind == 'to' else None)))
        return cb

    # ------------------------------------------------------------------ user operations
    def run_user(self, ui, ops):
        k = self.k
        pool = self.pool
        for op in ops:
            name = op[0]
            if ui == 0:
                self.marks['cur_op'] = name
            try:
                if name == 'apply':
                    self.do_apply(*op[1:])
                elif name == 'map':
                    self.do_map(*op[1:])
                elif name == 'get':
                    self.do_get(self.jobs[op[1]], op[2])
                elif name == 'sleep':
                    k.sleep(op[1])
                elif name == 'close':
                    k.record('user-close')
                    self.closed_at = (k.steps, k.now)
                    if not pool._pool or True:
                        pool.close()
                    self.marks['close_ret'] = (k.steps, k.now)
                elif name == 'join':
                    self.do_join()
                elif name == 'terminate':
                    self.do_terminate(op[1] if len(op) > 1 else 'call')
                elif name == 'grow':
                    pool.grow(op[1])
                    self.target += op[1]
                    self.target_history.append((k.steps, self.target))
                elif name == 'shrink':
                    try:
                        pool.shrink(op[1])
                        self.target -= op[1]
                        self.target_history.append((k.steps, self.target))
                    except ValueError:
                        self.target = pool._processes
                        self.target_history.append((k.steps, self.target))
                elif name == 'discard':
                    rec = self.jobs.get(op[1])
                    if rec is not None and rec.handle is not None and hasattr(rec.handle, 'discard'):
                        rec.handle.discard()
                        rec.discarded = True
                elif name == 'terminate_job':
                    self.do_terminate_job(op[1])
                elif name == 'wait_accepted':
                    self.wait_accepted(op[1], op[2] if len(op) > 2 else 30.0)
                else:
                    raise RuntimeError('bad user op %r' % (op,))
            finally:
                pass

    def do_apply(self, uid, prog, opts):
        k = self.k
        rec = JobRec(uid, 'apply')
        rec.prog = prog
        rec.opts = opts
        self.jobs[uid] = rec
        self.item_owner[uid] = uid
        kwds = {}
        if opts.get('bad_arg'):
            kwds['_junk'] = T.Unpicklable(uid)
        rec.submitted = (k.steps, k.now)
        rec.after_close = bool(opts.get('after_close'))
        h = self.pool.apply_async(
            T.run_task, (uid, prog), kwds,
            callback=self._cb(rec, 'ok'), error_callback=self._cb(rec, 'err'),
            accept_callback=self._cb(rec, 'acc'), timeout_callback=self._cb(rec, 'to'),
            soft_timeout=opts.get('soft_timeout'), timeout=opts.get('timeout'),
            lost_worker_timeout=opts.get('lost_worker_timeout'))
        rec.handle = h
        rec.res = h
        rec.returned_handle = h is not None
        rec.submit_ret = (k.steps, k.now)
        if h is not None:
            rec.jobid = h._job
            self.job_by_id[h._job] = rec
        k.record('submitted', uid, rec.jobid)

    def do_map(self, uid, items, chunksize, kind):
        k = self.k
        pool = self.pool
        rec = JobRec(uid, kind)
        rec.items = items
        rec.chunksize = chunksize
        self.jobs[uid] = rec
        for it in items:
            self.item_owner[it[0]] = uid
        rec.submitted = (k.steps, k.now)
        rec.pool_size_at_submit = len(pool._pool)
        if kind == 'map':
            h = pool.map_async(T.run_item, items, chunksize,
                               callback=self._cb(rec, 'ok'), error_callback=self._cb(rec, 'err'))
            res = h
        elif kind == 'starmap':
            h = pool.starmap_async(T.run_star, [tuple(it) for it in items], chunksize,
                                   callback=self._cb(rec, 'ok'), error_callback=self._cb(rec, 'err'))
            res = h
        else:
            fn = pool.imap if kind == 'imap' else pool.imap_unordered
            h = fn(T.run_item, items, chunksize or 1)
            res = h
            if h is not None and not hasattr(h, '_job'):
                res = h.gi_frame.f_locals['.0']         # the IMapIterator behind the chunk-flattening generator
        rec.handle = h
        rec.res = res
        rec.returned_handle = h is not None
        rec.submit_ret = (k.steps, k.now)
        if res is not None:
            rec.jobid = res._job
            self.job_by_id[res._job] = rec
        k.record('submitted', uid, rec.jobid)

    def do_get(self, rec, timeout):
        """Observe the outcome of a job through its public handle."""
        k = self.k
        P = self.P
        h = rec.handle
        if h is None:
            return
        if rec.kind in ('imap', 'imap_unordered'):
            n = 0
            limit = len(rec.items) + 3
            while n < limit:
                n += 1
                t0 = k.now
                try:
                    v = h.next(timeout) if hasattr(h, 'next') else self._gen_next(h, timeout)
                    rec.observed.append((k.steps, 'ok', v))
                except StopIteration:
                    rec.observed.append((k.steps, 'stop', None))
                    break
                except P.TimeoutError:
                    rec.observed.append((k.steps, 'timeout', k.now - t0))
                    break
                except Exception as exc:       # noqa
                    rec.observed.append((k.steps, 'err', exc))
            return
        t0 = k.now
        try:
            v = h.get(timeout)
            rec.observed.append((k.steps, 'ok', v))
        except P.TimeoutError:
            rec.observed.append((k.steps, 'timeout', k.now - t0))
        except BaseException as exc:       # noqa
            if type(exc).__name__ in ('SimDead', 'SimAbort'):
                raise
            rec.observed.append((k.steps, 'err', exc))

    def _gen_next(self, gen, timeout):
        # chunked imap returns a plain generator: no timeout argument; the harness relies on the deadlock
        # detector / horizon instead
        return next(gen)

    def do_join(self):
        k = self.k
        k.record('user-join')
        self.marks['cur_op'] = 'join'
        self.marks['join_call'] = (k.steps, k.now)
        self.pool.join()
        self.marks['join_ret'] = (k.steps, k.now)
        self.join_ret = (k.steps, k.now)
        self.snapshot_after_join()

    def snapshot_after_join(self):
        k = self.k
        snap = {'workers': {}, 'threads': {}}
        for pid, w in self.workers.items():
            p = w['proc']
            snap['workers'][pid] = (p.dead, p.reaped, p.status)
        for a in k.actors:
            if a.proc is k.root and a.kind in ('Supervisor', 'TaskHandler', 'ResultHandler', 'TimeoutHandler'):
                snap['threads'][a.kind] = a.state
        self.marks['after_join'] = snap

    def do_terminate(self, how):
        k = self.k
        k.record('user-terminate', how)
        self.marks['cur_op'] = 'terminate'
        busy = sum(1 for w in self.workers.values() if not w['proc'].dead and w['proc'].info.get('executing'))
        if busy:
            k.probe('terminate_with_busy_worker')
        t0 = (k.steps, k.now)
        before = {uid: (r.first[2], r.first[3]) for uid, r in self.jobs.items() if r.first}
        self.pool.terminate()
        snap = {'workers': {}, 'threads': {}}
        for pid, w in self.workers.items():
            p = w['proc']
            snap['workers'][pid] = (p.dead, p.reaped, p.status)
        for a in k.actors:
            if a.proc is k.root and a.kind in ('Supervisor', 'TaskHandler', 'ResultHandler', 'TimeoutHandler'):
                snap['threads'][a.kind] = a.state
        self.term_calls.append({'t0': t0, 't1': (k.steps, k.now), 'snap': snap, 'before': before, 'how': how})

    def do_terminate_job(self, uid):
        rec = self.jobs.get(uid)
        if rec is None or rec.res is None:
            return
        pid = getattr(rec.res, '_worker_pid', None)
        if isinstance(pid, int):
            self.k.record('user-terminate-job', uid, pid)
            rec.opts['terminate_job_pid'] = pid
            self.pool.terminate_job(pid)

    def wait_accepted(self, uid, timeout):
        k = self.k
        rec = self.jobs.get(uid)
        if rec is None or rec.res is None:
            return
        a = k.enter('wait-accepted')
        res = rec.res
        k.wait_until(a, lambda: bool(res.accepted()) if hasattr(res, 'accepted') else True,
                     k.now + timeout, 'wait-accepted')

    def event_loop(self):
        """threads=False: the user's event loop calls the pool's handlers in scheduler-chosen order."""
        k = self.k
        pool = self.pool
        while not self.stop_evloop:
            c = k.choose(3, 'evloop')
            if c == 0:
                pool.maintain_pool()
            elif c == 1:
                pool.handle_result_event()
            elif pool._timeout_handler is not None:
                pool._timeout_handler.handle_event()
            k.sleep(0.05)

    # ------------------------------------------------------------------ epilogue
    def epilogue(self):
        k = self.k
        mode = self.case.get('epilogue', 'close_join')
        if mode == 'none':
            self.stop_evloop = True
            return
        self.marks['drain_start'] = (k.steps, k.now)
        self.marks['cur_op'] = 'drain'
        if mode != 'after_join':
            for uid, rec in list(self.jobs.items()):
                if rec.returned_handle and not rec.discarded and not any(o[1] in ('ok', 'err', 'stop') for o in rec.observed):
                    self.do_get(rec, DRAIN)
        self.marks['drain_end'] = (k.steps, k.now)
        pool = self.pool
        if mode == 'close_join':
            if pool._state == self.P.RUN:
                self.closed_at = (k.steps, k.now)
                self.marks['cur_op'] = 'close'
                pool.close()
            if 'join_ret' not in self.marks:
                self.do_join()
            self.do_terminate('epilogue')
        elif mode == 'after_join':
            for uid, rec in list(self.jobs.items()):
                if rec.returned_handle and not rec.discarded:
                    self.do_get(rec, 0.0)
            self.do_terminate('epilogue')
        elif mode == 'terminate':
            self.do_terminate('epilogue')
        self.stop_evloop = True
        self.marks['cur_op'] = 'done'
        self.marks['done'] = (k.steps, k.now)

    # ------------------------------------------------------------------ scheduler-side hooks
    def fault_hook(self, k):
        return

    def step_hook(self, k):
        # C01.c: an outcome never changes once it is observable
        for rec in self.jobs.values():
            res = rec.res
            if res is None or rec.kind in ('imap', 'imap_unordered'):
                continue
            if res._event._flag:
                cur = (res._success, id(res._value))
                if rec.first is None:
                    rec.first = (k.steps, k.now, cur[0], cur[1])
                elif (rec.first[2], rec.first[3]) != cur:
                    self.bad('C01.c', 'outcome-changed:%s' % rec.kind,
                             'job %r: outcome changed after being observable (first at step %d: success=%r; now '
                             'success=%r value=%.80r) by %s'
                             % (rec.uid, rec.first[0], rec.first[2], cur[0], res._value,
                                k.current.kind if k.current else '?'))
                    rec.first = (rec.first[0], rec.first[1], cur[0], cur[1])

    def abstract_state(self):
        pool = self.pool
        if pool is None:
            return 0
        jobs = []
        for rec in self.jobs.values():
            res = rec.res
            if res is None:
                continue
            try:
                jobs.append((rec.kind, bool(res.accepted()) if hasattr(res, 'accepted') else None, bool(res.ready())))
            except Exception:     # noqa
                jobs.append((rec.kind, None, None))
        jobs.sort(key=repr)
        wk = sorted((w['proc'].dead, bool(w['proc'].info.get('executing'))) for w in self.workers.values())
        return (pool._state, tuple(jobs), tuple(wk), min(len(self.out_pipe.buf), 1), min(len(self.in_pipe.buf), 1))

    # ------------------------------------------------------------------ log views
    def exec_log(self):
        """uid -> list of dicts {pid, begin, end, ret, exc}"""
        out = {}
        cur = {}
        for e in self.k.log:
            kind = e[2]
            if kind == 'exec-begin':
                d = {'pid': e[4], 'begin': e[0], 'end': None, 'ret': None, 'exc': None, 'has_ret': False}
                out.setdefault(e[3], []).append(d)
                cur[(e[3], e[4])] = d
            elif kind == 'exec-end':
                d = cur.get((e[3], e[4]))
                if d is not None:
                    d['end'] = e[0]
            elif kind == 'exec-ret':
                d = cur.get((e[3], e[4]))
                if d is not None:
                    d['ret'] = e[5]
                    d['has_ret'] = True
            elif kind == 'exec-exc':
                d = cur.get((e[3], e[4]))
                if d is not None:
                    d['exc'] = e[5]
        return out

    # ------------------------------------------------------------------ judgement
    def judge(self):
        from . import pool_judge
        return pool_judge.judge(self)
