"""S-PROC: BaseProcess.start/join/is_alive/exitcode/terminate and Popen.poll/wait (fork, spawn
and forkserver flavours; spawn runs popen_spawn_posix.Popen._launch itself) against scripted children on the simulated kernel; the child side
runs the repository's real BaseProcess._bootstrap.  Serves C19."""
import sys

from .common import new_kernel, finish, V, POLICIES, state, dump_for_child
from . import poolsim

RUNS_PER_FORK = 10
COMPONENTS = {
    'real': ['billiard/process.py BaseProcess.__init__/start/join/is_alive/exitcode/terminate/_bootstrap, '
             'active_children/_cleanup', 'billiard/popen_fork.py Popen.poll/wait/terminate/close',
             'billiard/popen_spawn_posix.py Popen.__init__/_launch/duplicate_for_child (spawn flavour)',
             'billiard/popen_forkserver.py Popen.poll', 'billiard/forkserver.py read_unsigned/write_unsigned',
             'billiard/connection.py wait'],
    'stub': ['fork/exec -> simulated process created from a pickled copy (spawn-like)',
             'spawn flavour: spawnv_passfds -> simulated process inheriting exactly passfds that reads the pickles '
             '_launch writes; semaphore_tracker.getfd -> a simulated descriptor', 'waitpid, kill, wait '
             'statuses, sentinel pipe, poll, clock -> simulated kernel', 'the forkserver process itself is not '
             'run: the child writes pid and exit code to the status pipe as forkserver._serve_one does'],
}
ASSUMPTIONS = [
    'the real kernel reports a signal death as WIFSIGNALED with that signal (checked against real children by '
    'selftest/conformance.py, not here)',
    'exit codes asserted only for sys.exit(n) with 0 <= n <= 255',
]
RULE = ('case = (start flavour fork|forkserver|spawn, child program: ticks/sleeps then return | raise | sys.exit(n) | fatal '
        'signal | os._exit(n), 1-2 parent programs of exitcode/is_alive/join(t)/sleep/terminate/active_children/'
        'start-again/foreign-start ops, EINTR rate); distinct = distinct (workload hash, schedule fingerprint); '
        'non-trivial = a parent observation was made while the child was still alive AND one after it ended')
PROBES = ['observed_alive_then_dead', 'join_timed_out', 'join_returned_at_exit_instant', 'eintr', 'signal_death',
          'forkserver_eof_status', 'spawn_launch', 'double_start_refused', 'foreign_start_refused', 'terminated_by_parent']

SIGS = [9, 15, 11, 6, 1, 2, 3, 10, 12, 14]


class ChildError(Exception):
    pass


def child_main(prog):
    k = state.K
    for ins in prog:
        op = ins[0]
        if op == 'tick':
            for _ in range(ins[1]):
                k.yield_('child-tick')
        elif op == 'sleep':
            k.sleep(ins[1])
        elif op == 'return':
            return
        elif op == 'raise':
            raise ChildError('child failed')
        elif op == 'sys_exit':
            sys.exit(ins[1])
        elif op == 'sys_exit_none':
            sys.exit()
        elif op == 'os_exit':
            k.exit_now(ins[1])
        elif op == 'sig':
            k.post_signal(k.cur_proc_obj(), ins[1], 'self')
            k.yield_('after-signal')
            k.sleep(5.0)        # an ignored / handled signal: go on a little and return


def generate(rng, tier, prop='C19'):
    body = []
    for _ in range(rng.randint(0, 3)):
        body.append(['tick', rng.randint(1, 3)] if rng.random() < 0.5 else ['sleep', rng.choice([0.01, 0.3, 1.0, 2.5])])
    if rng.random() < 0.7:
        body.insert(0, ['tick', rng.randint(2, 6)])     # let the parent look while the child is still running
    r = rng.random()
    if r < 0.2:
        end = ['return']
    elif r < 0.35:
        end = ['raise']
    elif r < 0.6:
        end = ['sys_exit', rng.choice([0, 1, 2, 3, 7, 42, 100, 127, 128, 200, 255])]
    elif r < 0.85:
        end = ['sig', rng.choice(SIGS)]
    else:
        end = ['os_exit', rng.choice([0, 1, 5, 255])]
    parents = []
    for _ in range(1):          # one polling thread: concurrent join/poll of one Process object is outside C19
        ops = [[rng.choice(['exitcode', 'is_alive'])]]
        for _ in range(rng.randint(2, 7)):
            q = rng.random()
            if q < 0.25:
                ops.append(['exitcode'])
            elif q < 0.45:
                ops.append(['is_alive'])
            elif q < 0.7:
                ops.append(['join', rng.choice([None, 0.0, 0, 0.001, 0.3, 1.0, 2.5, 5.0, -0.05, -1])])   # (a deadline loop passes what is left: <= 0 once it is used up)
            elif q < 0.85:
                ops.append(['sleep', rng.choice([0.01, 0.3, 1.0, 2.5])])
            elif q < 0.9:
                ops.append(['terminate'])
            elif q < 0.95:
                ops.append(['active_children'])
            else:
                ops.append(['start_again'])
        parents.append(ops)
    return {'flavour': rng.choice(['fork', 'fork', 'forkserver', 'spawn']), 'child': body + [end], 'parents': parents,
            'foreign_start': rng.random() < 0.15, 'eintr': rng.choice([0.0, 0.0, 0.1]),
            'policy': rng.choice(POLICIES)}


def shrink(case):
    for i in range(len(case['child']) - 1):
        c = dict(case)
        c['child'] = case['child'][:i] + case['child'][i + 1:]
        yield c
    if len(case['parents']) > 1:
        c = dict(case)
        c['parents'] = case['parents'][:1]
        yield c
    for pi, ops in enumerate(case['parents']):
        for j in range(len(ops)):
            if len(ops) > 1:
                c = dict(case)
                c['parents'] = [list(o) for o in case['parents']]
                del c['parents'][pi][j]
                yield c
    for key, val in (('eintr', 0.0), ('foreign_start', False), ('flavour', 'fork')):
        if case.get(key) != val:
            c = dict(case)
            c[key] = val
            yield c


def expected_code(case):
    end = case['child'][-1]
    fs = case['flavour'] == 'forkserver'
    if end[0] == 'return':
        return 0
    if end[0] == 'raise':
        return 1
    if end[0] == 'sys_exit':
        return end[1]
    if end[0] == 'os_exit':
        return 255 if fs else end[1]       # forkserver: the child never wrote its code -> EOF -> 255
    if end[0] == 'sig':
        s = end[1]
        if s == 2:
            return 1                        # default SIGINT handler raises KeyboardInterrupt in the target
        return ('nonzero',) if fs else -s
    return None


def execute(case, seed, choices=None):
    k = new_kernel(seed, {'policy': case.get('policy', 'random'), 'horizon': 300.0, 'max_steps': 20000,
                          'eintr': case.get('eintr', 0.0), 'eintr_only': ('waitpid',), 'real_bootstrap': True},
                   choices)
    poolsim.install_pool()
    poolsim.setup_kernel(k)
    import billiard.process as BP
    if case['flavour'] == 'spawn':
        poolsim.install_spawn()
        ctx = poolsim.spawn_context()
    else:
        ctx = poolsim.PoolContext() if case['flavour'] == 'fork' else poolsim.FSContext()
    viol = []
    seen = set()
    obs = []            # (kind, begin step, end step, tb, te, result, arg)
    child = {}
    real_stderr = sys.stderr
    sys.stderr = open('/dev/null', 'w')

    def bad(clause, sig, detail):
        if sig not in seen:
            seen.add(sig)
            viol.append(V(clause, sig, detail))

    def on_child(proc, process_obj):
        child.setdefault('proc', proc)
    k.cfg['_on_child'] = on_child

    def parent(pi, ops, p):
        for op in ops:
            name = op[0]
            b, tb = k.steps, k.now
            if name == 'exitcode':
                obs.append(('exitcode', b, None, tb, None, p.exitcode, None))
                obs[-1] = obs[-1][:2] + (k.steps,) + (tb, k.now) + obs[-1][5:]
            elif name == 'is_alive':
                r = p.is_alive()
                obs.append(('is_alive', b, k.steps, tb, k.now, r, None))
            elif name == 'join':
                p.join(op[1])
                e, te = k.steps, k.now
                # exitcode right after (one more kernel call; the child cannot un-exit)
                obs.append(('join', b, e, tb, te, p._popen.returncode, op[1]))
            elif name == 'sleep':
                k.sleep(op[1])
            elif name == 'terminate':
                k.probe('terminated_by_parent')
                child['terminated'] = True
                p.terminate()
            elif name == 'active_children':
                r = BP.active_children()
                obs.append(('active', b, k.steps, tb, k.now, p in r, None))
            elif name == 'start_again':
                try:
                    p.start()
                    bad('C19.s', 'second-start-accepted', 'start() twice did not fail')
                except AssertionError:
                    k.probe('double_start_refused')

    def user():
        p = ctx.Process(target=child_main, args=(case['child'],))
        if p.exitcode is not None or p.is_alive():
            bad('C19.a', 'unstarted-process-state', 'exitcode %r alive %r before start' % (p.exitcode, p.is_alive()))
        if case.get('foreign_start'):
            data, fds = dump_for_child(p)

            def foreign():
                import pickle
                q = pickle.loads(data)
                try:
                    q.start()
                    k.record('foreign-start', 'accepted')
                except AssertionError:
                    k.record('foreign-start', 'refused')
                k.exit_now(0)
            fp = k.create_process('foreign-', foreign, inherit_fds=fds)
            a = k.enter('wait-foreign')
            k.wait_until(a, lambda: fp.dead, k.now + 30.0, 'wait-foreign')
        p.start()
        child['obj'] = p
        acts = [k.spawn_thread(lambda pi=pi, ops=ops: parent(pi, ops, p), 'parent%d' % pi)
                for pi, ops in enumerate(case['parents'][1:], 1)]
        parent(0, case['parents'][0], p)
        for a in acts:
            k.join_actor(a)
        # final: an untimed join always returns and leaves a consistent object
        b, tb = k.steps, k.now
        p.join()
        obs.append(('join', b, k.steps, tb, k.now, p._popen.returncode, None))
        obs.append(('final', k.steps, k.steps, k.now, k.now, (p.exitcode, p.is_alive(), p in BP.active_children()), None))

    k.spawn_actor(k.root, user, 'P0.user', main=True)
    end = k.run()
    sys.stderr.close()
    sys.stderr = real_stderr
    for a in k.actors:
        if a.exc is not None and a.proc is k.root:
            bad('C19.x', 'actor-exception:%s:%s' % (a.kind, type(a.exc).__name__), '%s: %r' % (a.name, a.exc))
    if end != 'quiescent':
        bad('C19.live', 'stuck:%s' % end, repr(k.blocked_report())[:500])
    for e in k.log:
        if e[2] == 'foreign-start':
            if e[3] == 'accepted':
                bad('C19.s', 'foreign-start-accepted', 'a process that did not create the object started it')
            else:
                k.probe('foreign_start_refused')
    proc = child.get('proc')
    exp = expected_code(case)
    if child.get('terminated') and proc is not None and proc.status == ('signal', 15):
        exp = ('nonzero',) if case['flavour'] == 'forkserver' else -15
    if proc is not None:
        ds, dt = proc.death_step, proc.death_time
        if proc.status and proc.status[0] == 'signal':
            k.probe('signal_death')
        saw_alive = saw_dead = False
        for (kind, b, e, tb, te, res, arg) in obs:
            dead_at_b = ds is not None and ds < b
            dead_at_e = ds is not None and ds <= e
            if kind == 'exitcode':
                if res is None:
                    saw_alive = True
                    if dead_at_b and case['flavour'] != 'forkserver':
                        bad('C19.a', 'exitcode-none-after-exit', 'child died at step %d, exitcode read at %d..%d gave None'
                            % (ds, b, e))
                else:
                    saw_dead = True
                    if not dead_at_e:
                        bad('C19.a', 'exitcode-before-exit', 'exitcode %r while the child was alive' % (res,))
                    check_code(bad, res, exp, case)
            elif kind == 'is_alive':
                if res:
                    saw_alive = True
                    if dead_at_b and case['flavour'] != 'forkserver':
                        bad('C19.a', 'alive-after-exit', 'is_alive() True at steps %d..%d, child died at %d' % (b, e, ds))
                else:
                    saw_dead = True
                    if not dead_at_e:
                        bad('C19.a', 'not-alive-before-exit', 'is_alive() False while the child was running')
            elif kind == 'join':
                if arg is None:
                    if not dead_at_e:
                        bad('C19.j', 'untimed-join-returned-early', 'join() returned while the child was alive')
                    if res is None:
                        bad('C19.j', 'no-exitcode-after-join', 'returncode None after an untimed join')
                else:
                    if te - tb > max(arg, 0) + 0.0011 + 1e-9:
                        bad('C19.j', 'join-overran-timeout', 'join(%r) took %.4fs' % (arg, te - tb))
                    if res is None:
                        k.probe('join_timed_out')
                        if dt is not None and dt < tb - 1e-9 and ds < b:
                            bad('C19.j', 'timed-join-missed-exit', 'child had exited before join(%r) began' % (arg,))
                    elif dt is not None and abs(dt - te) < 1e-9:
                        k.probe('join_returned_at_exit_instant')
                if res is not None:
                    check_code(bad, res, exp, case)
            elif kind == 'active':
                if res and ds is not None and ds <= b and case['flavour'] != 'forkserver':
                    bad('C19.c', 'dead-child-still-active', 'active_children() lists a child that exited at step %d' % ds)
            elif kind == 'final':
                code, alive, active = res
                if alive or code is None:
                    bad('C19.a', 'alive-after-join', 'after join(): exitcode %r is_alive %r' % (code, alive))
                if active:
                    bad('C19.c', 'active-after-join', 'joined child still in active_children()')
                check_code(bad, code, exp, case)
        if saw_alive and saw_dead:
            k.probe('observed_alive_then_dead')
        if case['flavour'] == 'forkserver' and exp in (255, ('nonzero',)):
            k.probe('forkserver_eof_status')
        if case['flavour'] == 'spawn':
            k.probe('spawn_launch')
    if k.faults.get('eintr'):
        k.probe('eintr')
    return finish(k, case, viol, k.n_decisions > 0 and k.probes.get('observed_alive_then_dead', 0) > 0)


def check_code(bad, got, exp, case):
    if exp is None or got is None:
        return
    if exp == ('nonzero',):
        if got == 0:
            bad('C19.e', 'forkserver-signal-death-reported-zero', 'exit code 0 for a child killed by a signal')
        return
    if got != exp:
        bad('C19.e', 'wrong-exit-code:%s' % case['child'][-1][0],
            'child ended by %r (%s): exitcode %r, expected %r' % (case['child'][-1], case['flavour'], got, exp))
