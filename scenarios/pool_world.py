"""World: shadow bookkeeping, user operations, wiretap, fault injection hooks and step
invariants for S-POOL.  The oracle clauses themselves are in pool_judge.py."""
import pickle
import struct

from .common import V, state
from . import pooltask as T

PROBES = [
    'death_reaped_before_ack_consumed', 'ready_in_pipe_when_writer_died', 'two_deaths_one_pass',
    'soft_signal_after_program_end', 'signalled_while_blocked_on_queue_lock', 'signalled_in_own_except',
    'signalled_during_exit_sleep', 'signalled_while_idle', 'guard_loop_exhausted', 'send_failure',
    'close_while_job_in_flight', 'recycle_while_map_running', 'putlock_blocked_submitter',
    'worker_died_in_task', 'worker_recycled', 'hard_limit_fired', 'soft_limit_fired', 'soft_limit_caught',
    'terminate_with_busy_worker', 'terminate_with_queued_jobs', 'map_with_failing_item',
    'imap_out_of_order_completion', 'unpicklable_result', 'restart_limit_hit', 'nack_sent', 'job_cancelled',
    'result_arrived_after_timelimit', 'grow', 'shrink', 'memory_limit_exit', 'operator_signal',
    'killpg_branch', 'deep_traceback_truncated',
]

ACK, READY, TASK, NACK, DEATH = 0, 1, 2, 3, 4
DRAIN = 250.0
POOL_MADE = ('WorkerLostError', 'Terminated', 'TimeLimitExceeded')
TERMSIGS = (15, 1, 3, 6, 14, 12)


class JobRec:
    def __init__(self, uid, kind):
        self.uid = uid
        self.kind = kind
        self.handle = None
        self.res = None            # the result object that sits in the pool cache
        self.jobid = None
        self.items = None
        self.prog = None
        self.opts = {}
        self.cbs = []              # (step, time, kind, info)
        self.submitted = None      # (step, time)
        self.returned_handle = False
        self.discarded = False
        self.cancelled = False
        self.first = None          # (step, time, success, id(value))
        self.observed = []         # outcomes seen through get()/next()
        self.after_close = False
        self.chunksize = None
        self.pool_size_at_submit = None


def exc_of(value):
    """Normalise what a failed result holds -> (type name, args, exception object, einfo)."""
    einfo = value
    exc = getattr(einfo, 'exception', einfo)
    inner = getattr(exc, 'exc', None)
    if inner is not None and type(exc).__name__ == 'ExceptionWithTraceback':
        exc = inner
    return type(exc).__name__, getattr(exc, 'args', ()), exc, einfo


def _poll_syn_queue_class():
    from billiard.queues import SimpleQueue
    from billiard.reduction import ForkingPickler

    class PollSynQueue(SimpleQueue):
        """A syn queue that is polled with a timeout (no get_payload): the worker then waits for the parent's
        answer in one-second polls, as it does with the queue types of other pool subclasses."""
        get_payload = None

        def get(self):
            with self._rlock:
                return ForkingPickler.loads(self._reader.recv_bytes())
    return PollSynQueue


PollSynQueue = _poll_syn_queue_class()
PollSynQueue.__qualname__ = 'PollSynQueue'      # picklable by reference (children unpickle their queues)


def make_synack_pool(P, W):
    """What Celery's pool subclass provides: a per-worker syn queue and a send_ack that answers on it."""

    class SynackPool(P.Pool):
        def get_process_queues(self):
            if W.case.get('synq_poll'):
                self._last_synq = PollSynQueue(ctx=self._ctx)
            else:
                self._last_synq = self._ctx.SimpleQueue()
            return self._inqueue, self._outqueue, self._last_synq

        def _process_register_queues(self, worker, queues):
            # keyed by the syn queue's write descriptor, which the worker names in its ACK message
            # (the pid is not known yet when a new worker's first message can already arrive)
            if not hasattr(self, '_synqs'):
                self._synqs = {}
            self._synqs[queues[2]._writer.fileno()] = queues[2]

        def send_ack(self, response, pid, job, fd):
            k = state.K
            q = self._synqs.get(fd)
            if q is not None:
                d = W.case.get('syn_delay')
                if d and W.syn_sent == d[0]:
                    # a parent that is busy elsewhere: this one answer goes out late (the worker polls for it)
                    k.fault_fired('late_syn_answer')
                    k.sleep(d[1])
                W.syn_sent += 1
                k.record('syn', pid, job, response)
                if response == NACK:
                    k.probe('nack_sent')
                q.put((response, (job,)))
    return SynackPool


class World:
    def __init__(self, k, case, P):
        self.k = k
        self.case = case
        self.P = P
        self.pool = None
        self.jobs = {}
        self.job_by_id = {}
        self.item_owner = {}       # item uid -> job uid
        self.workers = {}          # pid -> dict
        self.host_signals = []
        self.viol = []
        self.subjects = {}
        self.marks = {}
        self.wire_out = {}         # pid -> bytearray (partial) for the result pipe
        self.msgs_out = {}         # pid -> [(step, time, kind, args)]
        self.dups = 0
        self.syn_sent = 0
        self.in_pass = False
        self.created_in_pass = 0
        self.flags = {}            # named internal instants seen so far ('hard-intent:<jobid>' -> step), for triggers
        self.frames = []           # payloads of ACK / READY messages workers wrote (for the 'dup' fault)
        self.in_buf = bytearray()
        self.in_off = 0
        self.in_bounds = {0}
        self.closed_at = None
        self.term_calls = []
        self.target = case['pool']['processes']
        self.resizing = 0
        self.stop_evloop = False
        self._sig_seen = set()
        self.ext_faults = [dict(f) for f in case.get('ext_faults', [])]
        self.stalls = [dict(f, seen=0) for f in case.get('stalls', [])]
        self.size_checks = []
        self.slot_checks = []
        self.pass_checks = 0
        self.sup_actor = None
        self.inflight_max = 0
        self.any_worker_exit = False
        self.first_accept_time = None
        self.pass_start = None
        self.last_resize_step = -1
        self.ready_written = set()  # job ids whose worker has completely written a result message

    # ------------------------------------------------------------------ helpers
    def bad(self, clause, sig, detail):
        key = (clause, sig)
        if key in self._sig_seen:
            return
        self._sig_seen.add(key)
        self.viol.append(V(clause, sig, detail))

    def subj(self, name, n=1):
        self.subjects[name] = self.subjects.get(name, 0) + n

    def pool_created(self):
        pool = self.pool
        k = self.k
        of = k.root.fds.get(pool._outqueue._reader.fileno())
        self.out_pipe = of.rpipe
        self.out_pipe.tap = self._tap_out
        self.in_pipe = k.root.fds.get(pool._inqueue._writer.fileno()).wpipe
        self.in_pipe.tap = self._tap_in
        self.inq_rlock_id = pool._inqueue._rlock._semlock.handle
        self.outq_wlock_id = pool._outqueue._wlock._semlock.handle
        self.inq_rfd = pool._inqueue._reader.fileno()
        # record-only wrapper around the result handler's handling of an accept message (the dict is the one its
        # dispatcher closes over)
        handlers = getattr(pool._result_handler, 'state_handlers', None)
        if isinstance(handlers, dict) and ACK in handlers:
            orig_ack = handlers[ACK]

            def on_ack(job, i, *rest):
                k.record('ack-begin', job, i)
                try:
                    return orig_ack(job, i, *rest)
                finally:
                    k.record('ack-end', job, i)
            handlers[ACK] = on_ack

    def on_worker_started(self, child, process_obj):
        self.workers[child.pid] = {'proc': child, 'start_step': self.k.steps, 'start_time': self.k.now,
                                   'index': getattr(process_obj, 'index', None)}
        self.k.record('worker-start', child.pid)
        child.at_exit.append(self._on_worker_death)

    def on_sig_deliver(self, proc, signum, label):
        if proc.pid in self.workers and signum in TERMSIGS:
            self.workers[proc.pid].setdefault('term_delivered_at', self.k.now)
        if proc.pid in self.workers and (signum in TERMSIGS or signum == 10) and label.startswith('write') and \
                self.wire_out.get(proc.pid):
            # unwound in the middle of writing a message to the result pipe
            self.workers[proc.pid]['term_in_write'] = (self.k.steps, label)
            self.k.probe('worker_signalled_with_half_written_message')
        if proc.pid in self.workers and not proc.info.get('executing') and signum in TERMSIGS:
            # did this worker take a whole task off the queue that it has not announced (ACK) yet?
            name = 'W%d.' % proc.pid
            for e in reversed(self.k.log[-400:]):
                if e[1].startswith(name) and e[2] in ('read', 'write') and len(e) > 3:
                    if e[2] == 'read' and e[3] == self.inq_rfd and e[4] and \
                            self.in_pipe.nread in self.in_bounds:
                        self.marks['task_taken_not_announced'] = (proc.pid, self.k.steps)
                        self.k.probe('worker_signalled_between_read_and_ack')
                    break
        if proc.pid in self.workers and label.startswith('read') and not proc.info.get('executing') and \
                self.in_pipe.nread not in self.in_bounds:
            self.marks['task_stream_desync'] = (proc.pid, self.k.steps)
            self.k.probe('worker_signalled_with_half_read_task')

    def _on_worker_death(self, proc):
        """A reader that dies (or is unwound by a signal handler) after consuming part of a task message
        leaves the shared task pipe desynchronised for every later reader."""
        a = proc.main
        if a is not None and a.label == 'read:%d' % self.inq_rfd and self.in_pipe.nread not in self.in_bounds:
            self.marks['task_stream_desync'] = (proc.pid, self.k.steps)
            self.k.probe('worker_died_with_half_read_task')

    # ------------------------------------------------------------------ wiretaps
    def _tap_out(self, pipe, proc, chunk):
        buf = self.wire_out.setdefault(proc.pid, bytearray())
        buf += chunk
        while len(buf) >= 4:
            n, = struct.unpack('!i', bytes(buf[:4]))
            if len(buf) < 4 + n:
                break
            payload = bytes(buf[4:4 + n])
            del buf[:4 + n]
            try:
                msg = pickle.loads(payload)
            except Exception as exc:     # noqa
                msg = ('undecodable', repr(exc))
            if msg is None:
                kind, args = 'sentinel', ()
            else:
                kind, args = msg[0], msg[1]
            if proc is self.k.root:
                continue        # a duplicate injected by the harness: not a worker's own traffic
            self.msgs_out.setdefault(proc.pid, []).append((self.k.steps, self.k.now, kind, args))
            if kind == READY:
                self.ready_written.add(args[0])
            if kind in (ACK, READY):
                self.frames.append((kind, payload, args[0]))

    def _tap_in(self, pipe, proc, chunk):
        """Track message boundaries of the task pipe (byte offsets in the stream)."""
        buf = self.in_buf
        buf += chunk
        while len(buf) >= 4:
            n, = struct.unpack('!i', bytes(buf[:4]))
            if len(buf) < 4 + n:
                break
            del buf[:4 + n]
            self.in_off += 4 + n
            self.in_bounds.add(self.in_off)

    # ------------------------------------------------------------------ callbacks
    def _cb(self, rec, kind):
        def cb(*a, **kw):
            rec.cbs.append((self.k.steps, self.k.now, kind, (a[:2] if kind == 'acc' else None,
                                                             dict(kw) if kind == 'to' else None)))
            if kind == 'acc' and self.first_accept_time is None:
                self.first_accept_time = self.k.now
            if kind == 'acc':
                self.k.record('accept-consumed', rec.uid)
            d = self.case.get('cb_delay')
            if d and kind in ('ok', 'err'):
                # a slow user callback (it runs in the result handler thread)
                self.k.fault_fired('slow_callback')
                self.k.sleep(d)
        return cb

    # ------------------------------------------------------------------ stalled caller, line granularity
    def _arm_line_stall(self, opname):
        """A caller can lose the processor between any two lines of a pool method, not only at system calls:
        while the first user thread is inside operation `opname`, count the lines it executes in
        billiard/pool.py and deschedule it for `dur` simulated seconds at the n-th one."""
        import sys
        sys.settrace(None)
        spec = next((f for f in self.stalls if f.get('line') and f['op'] == opname and not f.get('done')), None)
        if spec is None:
            return
        k = self.k
        me = k.cur()

        def local(frame, event, arg):
            if event == 'line' and not spec.get('done'):
                spec['seen'] += 1
                if spec['seen'] >= spec['line']:
                    spec['done'] = True
                    if not me.proc.dead and not k.aborting and not me.nosig and self.marks.get('cur_op') == opname:
                        k.record('stall-line', opname, frame.f_code.co_name, frame.f_lineno - frame.f_code.co_firstlineno,
                                 spec['dur'])
                        k.fault_fired('caller_stalled_in_%s' % opname)
                        k.stall(me, spec['dur'])
                        k.enter('stalled')
            return local

        def tracer(frame, event, arg):
            if spec.get('done') or self.marks.get('cur_op') != opname:
                return None
            if frame.f_code.co_filename.endswith('billiard/pool.py'):
                if spec.get('body') and frame.f_code.co_name != body_names.get(opname, opname):
                    return None         # 'body': count only the lines of the called method itself
                return local
            return None
        body_names = {'apply': 'apply_async', 'map': 'map_async'}
        sys.settrace(tracer)

    # ------------------------------------------------------------------ user operations
    def run_user(self, ui, ops):
        k = self.k
        pool = self.pool
        for op in ops:
            name = op[0]
            if ui == 0:
                self.marks['cur_op'] = name
                self._arm_line_stall(name)
            if name == 'apply':
                self.do_apply(*op[1:])
            elif name == 'map':
                self.do_map(*op[1:])
            elif name == 'get':
                self.do_get(self.jobs[op[1]], op[2])
            elif name == 'sleep':
                k.sleep(op[1])
            elif name == 'close':
                self.do_close()
            elif name == 'join':
                self.do_join()
            elif name == 'terminate':
                self.do_terminate(op[1] if len(op) > 1 else 'terminate')
            elif name == 'grow':
                self.resizing += 1
                try:
                    pool.grow(op[1])
                finally:
                    self.resizing -= 1
                    self.last_resize_step = k.steps
                k.probe('grow')
                self.target += op[1]
            elif name == 'shrink':
                self.resizing += 1
                try:
                    if pool._processes - op[1] >= 1:
                        pool.shrink(op[1])
                        k.probe('shrink')
                except ValueError:
                    k.probe('shrink_refused_all_busy')
                finally:
                    self.resizing -= 1
                    self.last_resize_step = k.steps
                self.target = pool._processes
            elif name == 'discard':
                rec = self.jobs.get(op[1])
                if rec is not None and rec.handle is not None and hasattr(rec.handle, 'discard'):
                    rec.handle.discard()
                    rec.discarded = True
                    k.record('user-discard', op[1])
            elif name == 'cancel':
                rec = self.jobs.get(op[1])
                if rec is not None and rec.res is not None:
                    rec.res._cancel()
                    rec.cancelled = True
                    k.probe('job_cancelled')
                    k.record('user-cancel', op[1])
            elif name == 'terminate_job':
                self.do_terminate_job(op[1], op[2] if len(op) > 2 else None)
            elif name == 'dup':
                self.do_dup(op[1], op[2])
            elif name == 'at':
                self.do_at(op[1], op[2])
            elif name == 'wait_accepted':
                self.wait_accepted(op[1], op[2] if len(op) > 2 else 30.0)
            elif name == 'check_size':
                # look at the pool between two supervision passes, not in the middle of one
                sa = next((x for x in k.actors if x.kind == 'Supervisor'), None)
                if sa is not None:
                    a = k.enter('check-size')
                    k.wait_until(a, lambda: sa.state == 'done' or (sa.state == 'blocked' and sa.label == 'sleep'),
                                 k.now + 5.0, 'check-size')
                self.size_checks.append(self.size_snapshot())
            elif name == 'check_slots':
                # "once the pool is quiet": nothing submitted, resolved or reaped during the last two seconds (the
                # other user thread may still be submitting; a slot comes back when the worker is replaced)
                for _ in range(12):
                    self.wait_all_resolved(60.0)
                    mark = (len(self.jobs), sum(1 for r in self.jobs.values() if r.first is not None),
                            sum(1 for w in self.workers.values() if w['proc'].dead))
                    k.sleep(2.0)
                    if mark == (len(self.jobs), sum(1 for r in self.jobs.values() if r.first is not None),
                                sum(1 for w in self.workers.values() if w['proc'].dead)):
                        break
                s = pool._putlock
                self.slot_checks.append({'value': s._value, 'bound': s._initial_value, 'step': k.steps,
                                         'processes': pool._processes,
                                         'unresolved': [u for u, r in self.jobs.items()
                                                        if r.returned_handle and r.first is None and
                                                        r.kind == 'apply' and not r.discarded]})
            else:
                raise RuntimeError('bad user op %r' % (op,))

    def do_dup(self, n, gap):
        """Message duplication fault: a message some worker already wrote (ACK or READY) arrives a second
        time on the result pipe, whole, at a later instant the scheduler picks."""
        k = self.k
        q = self.pool._outqueue
        for _ in range(n):
            k.sleep(gap)
            if not self.frames or self.term_calls or 'join_ret' in self.marks:
                continue
            # mostly a message of a job that is still in progress (a part of a map that is not finished yet)
            live = [f for f in self.frames if f[2] in self.pool._cache]
            cand = live if live and k.choose(10, 'dup-bias') < 7 else self.frames
            kind, payload, _job = cand[k.choose(len(cand), 'dup-frame')]
            try:
                with q._wlock:
                    q._writer.send_bytes(payload)
            except (OSError, ValueError):
                continue
            k.fault_fired('message_duplicated_%s' % ('ack' if kind == ACK else 'ready'))
            k.record('dup-message', 'ack' if kind == ACK else 'ready')
            self.dups += 1

    def size_snapshot(self):
        pool = self.pool
        k = self.k
        return {'step': k.steps, 'time': k.now, 'len': len(pool._pool), 'processes': pool._processes,
                'target': self.target, 'indices': sorted(getattr(w, 'index', -1) for w in pool._pool),
                'alive': sum(1 for w in self.workers.values() if not w['proc'].dead), 'state': pool._state,
                'pids': sorted(w.pid for w in pool._pool if getattr(w, 'pid', None))}

    def wait_all_resolved(self, timeout):
        k = self.k
        a = k.enter('wait-resolved')

        def done():
            return all(r.first is not None or not r.returned_handle or r.discarded or r.cancelled or
                       r.kind in ('imap', 'imap_unordered') for r in self.jobs.values())
        k.wait_until(a, done, k.now + timeout, 'wait-resolved')

    def do_apply(self, uid, prog, opts):
        k = self.k
        rec = JobRec(uid, 'apply')
        rec.prog = prog
        rec.opts = opts
        self.jobs[uid] = rec
        self.item_owner[uid] = uid
        kwds = {}
        if opts.get('bad_arg'):
            kwds['_junk'] = T.Unpicklable(uid)
            k.probe('send_failure')
        rec.submitted = (k.steps, k.now)
        rec.after_close = bool(opts.get('after_close'))
        fn, fargs = T.run_task, (uid, prog)
        if opts.get('builtin'):
            # the task callable itself is a C function that raises: the traceback has a single entry
            fn, fargs = T.BUILTINS[opts['builtin']]
        h = self.pool.apply_async(
            fn, fargs, kwds,
            callback=self._cb(rec, 'ok'), error_callback=self._cb(rec, 'err'),
            accept_callback=self._cb(rec, 'acc'), timeout_callback=self._cb(rec, 'to'),
            soft_timeout=opts.get('soft_timeout'), timeout=opts.get('timeout'),
            lost_worker_timeout=opts.get('lost_worker_timeout'))
        rec.handle = h
        rec.res = h
        rec.returned_handle = h is not None
        rec.submit_ret = (k.steps, k.now)
        if h is not None:
            rec.jobid = h._job
            self.job_by_id[h._job] = rec
        k.record('submitted', uid, rec.jobid)

    def do_map(self, uid, items, chunksize, kind):
        k = self.k
        pool = self.pool
        rec = JobRec(uid, kind)
        rec.items = items
        rec.chunksize = chunksize
        rec.after_close = self.closed_at is not None      # offered to a pool that has been closed
        self.jobs[uid] = rec
        for it in items:
            self.item_owner[it[0]] = uid
        rec.submitted = (k.steps, k.now)
        rec.pool_size_at_submit = len(pool._pool)
        if kind == 'map':
            h = pool.map_async(T.run_item, items, chunksize,
                               callback=self._cb(rec, 'ok'), error_callback=self._cb(rec, 'err'))
            res = h
        elif kind == 'starmap':
            h = pool.starmap_async(T.run_star, [tuple(it) for it in items], chunksize,
                                   callback=self._cb(rec, 'ok'), error_callback=self._cb(rec, 'err'))
            res = h
        else:
            fn = pool.imap if kind == 'imap' else pool.imap_unordered
            h = fn(T.run_item, items, chunksize or 1)
            res = h
            if h is not None and not hasattr(h, '_job'):
                # the IMapIterator behind the chunk-flattening iterator (object or generator expression)
                res = getattr(h, '_result', None)
                if res is None:
                    res = h.gi_frame.f_locals['.0']
        rec.handle = h
        rec.res = res
        rec.returned_handle = h is not None
        rec.submit_ret = (k.steps, k.now)
        if res is not None:
            rec.jobid = res._job
            self.job_by_id[res._job] = rec
        k.record('submitted', uid, rec.jobid)

    def do_get(self, rec, timeout):
        """Observe the outcome of a job through its public handle."""
        k = self.k
        P = self.P
        h = rec.handle
        if h is None:
            return
        if rec.kind in ('imap', 'imap_unordered'):
            n = 0
            limit = len(rec.items) + 3
            while n < limit:
                n += 1
                t0 = k.now
                try:
                    if hasattr(h, '_job') or hasattr(h, '_result'):
                        v = h.next(timeout)
                    else:
                        v = self._gen_next(rec, h, timeout)
                    rec.observed.append((k.steps, 'ok', v))
                except StopIteration:
                    rec.observed.append((k.steps, 'stop', None))
                    break
                except P.TimeoutError:
                    rec.observed.append((k.steps, 'timeout', k.now - t0))
                    break
                except Exception as exc:       # noqa
                    rec.observed.append((k.steps, 'err', exc))
            return
        t0 = k.now
        try:
            v = h.get(timeout)
            rec.observed.append((k.steps, 'ok', v))
        except P.TimeoutError:
            rec.observed.append((k.steps, 'timeout', k.now - t0))
        except BaseException as exc:       # noqa
            if type(exc).__name__ in ('SimDead', 'SimAbort'):
                raise
            rec.observed.append((k.steps, 'err', exc))

    def _gen_next(self, rec, gen, timeout):
        """Chunked imap returns a flattening iterator without a timeout argument: wait (bounded) until the
        underlying IMapIterator can make progress, then advance."""
        k = self.k
        res = rec.res
        pending = getattr(gen, 'gi_frame', None)
        if pending is not None and pending.f_locals.get('chunk') is not None:
            # still inside a chunk that was already received
            return next(gen)
        a = k.enter('gen-next')

        def ready():
            return bool(res._items) or res._index == res._length
        if timeout is not None and not k.wait_until(a, ready, k.now + timeout, 'gen-next'):
            raise self.P.TimeoutError()
        return next(gen)

    def do_close(self):
        k = self.k
        k.record('user-close')
        self.marks['cur_op'] = 'close'
        self.closed_at = (k.steps, k.now)
        if any(r.returned_handle and r.first is None for r in self.jobs.values() if r.kind == 'apply'):
            k.probe('close_while_job_in_flight')
        self.pool.close()
        self.marks['close_ret'] = (k.steps, k.now)

    def do_join(self):
        k = self.k
        k.record('user-join')
        self.marks['cur_op'] = 'join'
        # a user-side event loop (threads=False) is the thread that calls join(): it does not go on calling
        # the pool's handlers from elsewhere meanwhile (two readers on the result pipe would tear messages)
        if not self.case['pool'].get('threads', True):
            self.stop_evloop = True
            for a in k.actors:
                if a.kind == 'evloop' and a.state != 'done' and a is not k.cur():
                    k.join_actor(a)
        self.marks['join_call'] = (k.steps, k.now)
        self.pool.join()
        self.marks['join_ret'] = (k.steps, k.now)
        self.marks['after_join'] = self.snapshot()

    def snapshot(self):
        k = self.k
        snap = {'workers': {}, 'threads': {}}
        for pid, w in self.workers.items():
            p = w['proc']
            snap['workers'][pid] = (p.dead, p.reaped, p.status)
        for a in k.actors:
            if a.proc is k.root and a.kind in ('Supervisor', 'TaskHandler', 'ResultHandler', 'TimeoutHandler'):
                snap['threads'][a.kind] = a.state
        return snap

    def do_terminate(self, how):
        k = self.k
        pool = self.pool
        k.record('user-terminate', how)
        self.marks['cur_op'] = 'terminate'
        busy = sum(1 for w in self.workers.values() if not w['proc'].dead and w['proc'].info.get('executing'))
        if busy:
            k.probe('terminate_with_busy_worker')
        if any(r.returned_handle and r.first is None and not (hasattr(r.res, 'accepted') and r.res.accepted())
               for r in self.jobs.values() if r.kind == 'apply'):
            k.probe('terminate_with_queued_jobs')
        self.marks.setdefault('live_before_terminate',
                              sum(1 for w in self.workers.values() if not w['proc'].dead))
        # a user-side event loop (threads=False) does not call the pool's handlers during terminate()
        self.stop_evloop = True
        for a in k.actors:
            if a.kind == 'evloop' and a.state != 'done' and a is not k.cur():
                k.join_actor(a)
        t0 = (k.steps, k.now)
        before = {uid: (r.first[2], r.first[3]) for uid, r in self.jobs.items() if r.first}
        if how == 'drop':
            # interpreter exit / garbage collection: the Finalize callback runs without Pool.terminate()
            pool._terminate()
        elif how == 'with':
            with pool:
                pass
        else:
            pool.terminate()
            if how == 'terminate_twice':
                pool.terminate()
        self.term_calls.append({'t0': t0, 't1': (k.steps, k.now), 'snap': self.snapshot(), 'before': before,
                                'how': how, 'busy': busy})

    def do_terminate_job(self, uid, sig=None):
        rec = self.jobs.get(uid)
        if rec is None or rec.res is None:
            return
        pid = getattr(rec.res, '_worker_pid', None)
        if not isinstance(pid, int) and hasattr(rec.res, 'worker_pids'):
            # a map / imap job: the worker that holds one of its unfinished parts right now
            try:
                pid = next(iter(sorted(rec.res.worker_pids())), None)
            except Exception:      # noqa
                pid = None
        if isinstance(pid, int):
            self.k.record('user-terminate-job', uid, pid)
            if sig is None:
                rec.opts['terminate_job_pid'] = pid
                self.pool.terminate_job(pid)
            else:
                # a "soft revoke": terminate_job() with a signal the task may survive
                self.k.fault_fired('soft_revoke_signal_%d' % sig)
                self.pool.terminate_job(pid, sig)

    def wait_accepted(self, uid, timeout):
        k = self.k
        rec = self.jobs.get(uid)
        if rec is None or rec.res is None:
            return
        a = k.enter('wait-accepted')
        res = rec.res
        k.wait_until(a, lambda: bool(res.accepted()) if hasattr(res, 'accepted') else True,
                     k.now + timeout, 'wait-accepted')

    def event_loop(self):
        """threads=False: the user's event loop calls the pool's handlers in scheduler-chosen order."""
        k = self.k
        pool = self.pool
        while not self.stop_evloop:
            c = k.choose(3, 'evloop')
            if c == 0:
                pool.maintain_pool()
            elif c == 1:
                pool.handle_result_event()
            elif pool._timeout_handler is not None:
                pool._timeout_handler.handle_event()
            k.sleep(0.05)

    # ------------------------------------------------------------------ epilogue
    def epilogue(self):
        k = self.k
        mode = self.case.get('epilogue', 'close_join')
        pool = self.pool
        if mode == 'none':
            self.stop_evloop = True
            return
        if mode == 'terminate_only':
            self.do_terminate(self.case.get('terminate_how', 'terminate'))
            k.sleep(1.0)
            self.term_calls[-1]['snap_late'] = self.snapshot()
            self.stop_evloop = True
            self.marks['cur_op'] = 'done'
            self.marks['done'] = (k.steps, k.now)
            return
        self.marks['drain_start'] = (k.steps, k.now)
        self.marks['cur_op'] = 'drain'
        if mode != 'after_join':
            for uid, rec in list(self.jobs.items()):
                if rec.returned_handle and not rec.discarded and not rec.cancelled and \
                        not any(o[1] in ('ok', 'err', 'stop') for o in rec.observed):
                    self.do_get(rec, DRAIN)
        self.marks['drain_end'] = (k.steps, k.now)
        if self.case['prop'] == 'C04' and pool._state == self.P.RUN and self.case['pool'].get('threads', True):
            # "the pool is brought back to size": look after the supervision pass that follows the last exit
            # has completed, between two passes (not at an arbitrary instant in the middle of one)
            k.sleep(1.0)
            sa = next((x for x in k.actors if x.kind == 'Supervisor'), None)
            if sa is not None:
                a = k.enter('size-at-drain-end')
                k.wait_until(a, lambda: sa.state == 'done' or (sa.state == 'blocked' and sa.label == 'sleep'),
                             k.now + 5.0, 'size-at-drain-end')
        self.marks['pool_at_drain_end'] = self.size_snapshot()
        if mode == 'close_join':
            if pool._state == self.P.RUN:
                self.do_close()
            if 'join_ret' not in self.marks:
                self.do_join()
            self.do_terminate('terminate')
        elif mode == 'after_join':
            for uid, rec in list(self.jobs.items()):
                if rec.returned_handle and not rec.discarded:
                    self.do_get(rec, 0.0)
            self.do_terminate('terminate')
        elif mode == 'terminate':
            self.do_terminate('terminate')
        self.stop_evloop = True
        self.marks['cur_op'] = 'done'
        self.marks['done'] = (k.steps, k.now)

    # ------------------------------------------------------------------ scheduler-side hooks
    def worker_phase(self, w):
        """'busy' | 'idle' (no part of a message consumed) | 'other' | 'dead'."""
        p = w['proc']
        if p.dead or p.main is None:
            return 'dead'
        if p.info.get('executing'):
            return 'busy'
        a = p.main
        if a.state == 'blocked':
            if a.label == 'sem:%d' % self.inq_rlock_id:
                return 'idle'
            if a.label == 'read:%d' % self.inq_rfd and self.in_pipe.nread in self.in_bounds:
                return 'idle'
        return 'other'

    def fault_hook(self, k):
        if not self.ext_faults or self.pool is None:
            return
        f = self.ext_faults[0]
        base = self.first_accept_time
        if f.get('when') == 'idle' and base is None:
            base = k.cfg.get('t0', 1000.0) + 1.0
        if base is None or k.now < base + f.get('after', 0.0):
            return
        cands = []
        for pid in sorted(self.workers):
            w = self.workers[pid]
            ph = self.worker_phase(w)
            if ph == 'dead':
                continue
            if f['when'] == 'any' or f['when'] == ph:
                cands.append(w)
        if not cands:
            if k.now > base + f.get('after', 0.0) + 5.0:
                self.ext_faults.pop(0)
            return
        w = cands[k.choose(len(cands), 'fault-target')]
        self.ext_faults.pop(0)
        p = w['proc']
        ph = self.worker_phase(w)
        k.probe('operator_signal')
        k.fault_fired('operator_signal_%d_%s' % (f['sig'], ph))
        if ph == 'idle':
            k.probe('signalled_while_blocked_on_queue_lock' if p.main.label.startswith('sem:')
                    else 'signalled_while_idle')
        if p.info.get('in_except'):
            k.probe('signalled_in_own_except')
        self.k.record('operator-signal', p.pid, f['sig'], ph)
        w.setdefault('op_signals', []).append((k.steps, f['sig'], ph))
        k.post_signal(p, f['sig'], 'operator')

    def step_hook(self, k):
        pool = self.pool
        if self.stalls and k.current is not None and k.current.kind == 'user':
            # stalled caller: the thread inside a pool call is descheduled for a while at its n-th kernel
            # call of that operation (everything else goes on)
            op = self.marks.get('cur_op')
            for f in self.stalls:
                if f['op'] == op and f.get('nth'):
                    f['seen'] += 1
                    if f['seen'] == f['nth'] and k.current.state != 'done':
                        k.stall(k.current, f['dur'])
                        k.record('stall', op, f['nth'], f['dur'])
                        k.fault_fired('caller_stalled_in_%s' % op)
        # C01.c: an outcome never changes once it is observable
        inflight = 0
        for rec in self.jobs.values():
            res = rec.res
            if res is None or rec.kind in ('imap', 'imap_unordered'):
                continue
            if res._event._flag:
                cur = (res._success, id(res._value))
                if rec.first is None:
                    rec.first = (k.steps, k.now, cur[0], cur[1])
                elif (rec.first[2], rec.first[3]) != cur:
                    self.bad('C01.c', 'outcome-changed:%s' % rec.kind,
                             'job %r: outcome changed after being observable (first at step %d: success=%r; now '
                             'success=%r value=%.80r) by %s'
                             % (rec.uid, rec.first[0], rec.first[2], cur[0], res._value,
                                k.current.kind if k.current else '?'))
                    rec.first = (rec.first[0], rec.first[1], cur[0], cur[1])
            elif rec.kind == 'apply' and not rec.discarded and rec.jobid not in self.ready_written:
                inflight += 1
        if pool is None:
            return
        if not self.any_worker_exit:
            for w in self.workers.values():
                if w['proc'].dead:
                    self.any_worker_exit = True
                    break
        # C10: the slot semaphore never exceeds its bound (outside grow/shrink)
        s = pool._putlock
        if s is not None and not self.resizing and s._value > s._initial_value:
            self.bad('C10.a', 'semaphore-above-bound', 'value %d > bound %d at step %d (%s running)'
                     % (s._value, s._initial_value, k.steps, k.current.kind if k.current else '?'))
        if self.case['pool'].get('putlocks') and not self.any_worker_exit and not self.resizing and \
                self.target == self.case['pool']['processes']:
            if inflight > self.inflight_max:
                self.inflight_max = inflight
            if inflight > self.target:
                self.bad('C10.b', 'more-in-flight-than-slots',
                         '%d apply jobs in flight, %d slots' % (inflight, self.target))
        # C09: after a completed supervision pass the pool has its target size
        sa = self.sup_actor
        if sa is None:
            for a in k.actors:
                if a.kind == 'Supervisor':
                    self.sup_actor = sa = a
                    break
        # C09: never more live, un-dismissed workers than the target
        if pool._state == self.P.RUN and not self.resizing:
            live = 0
            for w in pool._pool:
                rec = self.workers.get(w.pid)
                if rec is not None and not rec['proc'].dead and not getattr(w, '_controlled_termination', False):
                    live += 1
            if live > pool._processes:
                self.bad('C09.b', 'more-workers-than-target', '%d live workers, target %d' % (live, pool._processes))

    def resize_seen(self):
        return self.last_resize_step >= 0

    def on_pass_begin(self, pool):
        self.in_pass = True
        self.created_in_pass = 0

    def on_worker_created(self, pool, w):
        if self.in_pass:
            self.created_in_pass += 1

    def do_at(self, cond, limit):
        """Trigger: park the calling user thread until the pool is at a chosen internal instant, so that the
        next operation lands there (a caller's timing relative to the pool's own threads is arbitrary)."""
        k = self.k
        preds = {
            'mid-repopulate': lambda: self.in_pass and self.created_in_pass >= 1,
            'mid-pass': lambda: self.in_pass,
        }
        a = k.enter('at:' + cond)
        hit = k.wait_until(a, preds[cond], k.now + limit, 'at:' + cond)
        if preds[cond]():
            k.probe('trigger_' + cond.replace('-', '_'))
            k.fault_fired('call_placed_' + cond.replace('-', '_'))

    def on_pass_end(self, pool, begin_step):
        """Called (in the supervising actor) right after a completed Pool._maintain_pool()."""
        k = self.k
        self.in_pass = False
        if pool._state != self.P.RUN or self.resizing or k.host_exit is not None:
            return
        if self.last_resize_step >= begin_step:
            return      # grow()/shrink() happened during this pass: judged after the next one
        self.pass_checks += 1
        n_all = len(pool._pool)
        n = sum(1 for w in pool._pool if not getattr(w, '_controlled_termination', False))
        if n_all < pool._processes:
            self.bad('C09.a', 'size-after-pass:below',
                     'after a supervision pass the pool holds %d workers, target %d' % (n_all, pool._processes))
        elif n > pool._processes:
            self.bad('C09.a', 'size-after-pass:above',
                     'after a supervision pass the pool holds %d workers that were not asked to leave, target %d'
                     % (n, pool._processes))
        idx = [getattr(w, 'index', None) for w in pool._pool]
        if len(set(idx)) != len(idx):
            self.bad('C09.a', 'duplicate-slot-index', 'indices %r' % (idx,))

    def abstract_state(self):
        pool = self.pool
        if pool is None:
            return 0
        jobs = []
        for rec in self.jobs.values():
            res = rec.res
            if res is None:
                continue
            try:
                jobs.append((rec.kind, bool(res.accepted()) if hasattr(res, 'accepted') else None, bool(res.ready())))
            except Exception:     # noqa
                jobs.append((rec.kind, None, None))
        jobs.sort(key=repr)
        wk = sorted((w['proc'].dead, bool(w['proc'].info.get('executing'))) for w in self.workers.values())
        s = pool._putlock
        return (pool._state, tuple(jobs), tuple(wk), min(len(self.out_pipe.buf), 1), min(len(self.in_pipe.buf), 1),
                s._value if s is not None else -1)

    # ------------------------------------------------------------------ log views
    def exec_log(self):
        """uid -> list of dicts {pid, begin, end, ret, exc}"""
        out = {}
        cur = {}
        for e in self.k.log:
            kind = e[2]
            if kind == 'exec-begin':
                d = {'pid': e[4], 'begin': e[0], 'end': None, 'ret': None, 'exc': None, 'has_ret': False}
                out.setdefault(e[3], []).append(d)
                cur[(e[3], e[4])] = d
            elif kind == 'exec-end':
                d = cur.get((e[3], e[4]))
                if d is not None:
                    d['end'] = e[0]
            elif kind == 'exec-ret':
                d = cur.get((e[3], e[4]))
                if d is not None:
                    d['ret'] = e[5]
                    d['has_ret'] = True
            elif kind == 'exec-exc':
                d = cur.get((e[3], e[4]))
                if d is not None:
                    d['exc'] = e[5]
        return out

    def judge(self):
        from . import pool_judge
        return pool_judge.judge(self)
