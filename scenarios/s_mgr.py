"""S-MGR: billiard.managers Server / SyncManager / proxies / dispatch / reference counting
over Listener/Client with authentication, all on the simulated kernel.  Serves C20.

One simulated server process runs the real Server (accepter thread + one thread per
connection, all actors).  1-3 simulated client processes x 1-2 threads run short programs
over shared proxies; proxies are created, copied by pickle, passed to child processes and
dropped in generated orders; clients with a wrong key (honest API and raw hostile peers)
try to get in.  Oracles: per-object linearizability against a local Python object,
exception types, reference counts at quiescence, nothing served to a wrong key, liveness.
"""
import array
import collections
import copy
import gc
import pickle
import re
import weakref

from .common import new_kernel, finish, V, POLICIES, state, seams, dump_for_child
from simos import seams_mgr

RUNS_PER_FORK = 5
COMPONENTS = {
    'real': ['billiard/managers.py: Server (serve_forever, accepter, handle_request, serve_client, create, incref, '
             'decref, shutdown, fallbacks), BaseManager/SyncManager (connect, _create, registered creation methods), '
             'BaseProxy (_connect, _callmethod, _incref, _decref via util.Finalize, __reduce__), RebuildProxy, '
             'AutoProxy/MakeProxyType, ListProxy/DictProxy/NamespaceProxy/ValueProxy/ArrayProxy/AcquirerProxy, '
             'dispatch/convert_to_error, Token, Namespace, Value, Array',
             'billiard/connection.py: Listener, Client, deliver_challenge/answer_challenge, Connection framing',
             'billiard/process.py current_process()/AuthenticationString, billiard/reduction.py ForkingPickler, '
             'multiprocessing.util.Finalize/ForkAwareLocal (stdlib, as imported by billiard.util)',
             'referents list, dict, array.array, Namespace, Value are the real types'],
    'stub': ['threading.Thread/RLock/Event used by Server -> actors and simulated locks; sockets/accept/connect/'
             'read/write/urandom -> simulated kernel (stream sockets with short I/O)',
             'blocking referents (threading.Lock, queue.Queue, ...) re-registered with equivalents on the simulated '
             'kernel (simos/seams_mgr.py) so that a blocking proxy call parks a server actor',
             'client/server processes -> simulated process table; process-private globals (process._current_process, '
             'BaseProxy._address_to_local) swapped per simulated process',
             'BaseManager.start()/fork of the server process is replaced by running Server in a simulated process'],
}
ASSUMPTIONS = [
    'a sender keeps its proxy until the receiver has rebuilt (incref-ed) the pickled copy, as the documentation requires',
    'a plain pickle of a proxy is rebuilt with the key of current_process(); client processes inherit the manager key',
    'single referent operations are atomic under the GIL: pre-emption happens at kernel calls, not inside list/dict methods',
    'a cyclic-GC pass is an explicit event (a proxy kept alive only by an exception<->frame cycle counts as live until then)',
    'client processes that end by os._exit without dropping their proxies leak references by design; the check drops first',
    'keys differing only by trailing NUL bytes are one HMAC key (known finding under C18) and are not used as wrong keys',
    'proxy calls that can wait forever (untimed Queue.get/put on a full queue, untimed RLock/Semaphore.acquire, '
    'Event.wait(None)) are not generated, except Lock.acquire() whose holder always releases',
]
RULE = ('case = (manager key, 1-3 base objects + 0-3 late objects of type list/dict/Namespace/Value/Array/Lock/RLock/'
        'Semaphore/BoundedSemaphore/Event/Queue, '
        'a tree of 1-3 client processes x 1-2 threads with programs of proxy operations (unique values), nonexposed '
        'method calls, pickle copies, drops, late creations, children receiving proxies by spawn-style or plain pickle, '
        '0-2 wrong-key clients of five kinds, short I/O, pipe capacity, policy); distinct = distinct (workload hash, '
        'schedule fingerprint); non-trivial = >= 2 actors interleaved at a decision and (an object was operated on '
        'by >= 2 threads, or a proxy life-cycle operation or a wrong-key attempt took place)')
PROBES = ['second_proxy_through_create', 'proxy_regained_by_name', 'two_server_threads_in_one_referent', 'decref_to_zero_while_other_increfs', 'proxy_rebuilt_in_child',
          'proxy_pickled_copy', 'remote_exception_reraised', 'wrong_key_refused', 'blocking_call_blocked_in_server',
          'dropped_to_zero', 'late_create', 'nonexposed_refused', 'drop_needed_gc',
          'shared_object_concurrent_ops', 'hostile_raw_refused']
# 'ident_reused' (a new referent getting the id()-derived ident of a disposed one) is counted too but is not
# listed: address reuse is decided by the allocator and cannot be steered from outside; with the stated
# assumption (no stale tokens) it has no observable effect.

ADDR = 'sim-mgr-1'
TYPES = ['list', 'list', 'list', 'dict', 'dict', 'dict', 'ns', 'value', 'array', 'lock', 'queue', 'queue',
         'rlock', 'rlock', 'sem', 'event']
TYPEID = {'list': 'list', 'dict': 'dict', 'ns': 'Namespace', 'value': 'Value', 'array': 'Array',
          'lock': 'Lock', 'queue': 'Queue', 'rlock': 'RLock', 'event': 'Event'}      # 'sem': see typeid_of()
# methods that exist on the referent but are not exposed by the proxy type
NONEXPOSED = {'list': ['clear', 'copy', '__class__', '__sizeof__'], 'dict': ['fromkeys', '__class__', '__sizeof__'],
              'ns': ['__class__', '__init__'], 'value': ['__class__', '__init__'],
              'array': ['append', 'tolist', '__class__'], 'lock': ['locked', '__class__'],
              'queue': ['__class__', '__init__'], 'rlock': ['__class__', '_is_owned'],
              'sem': ['__class__', '__init__'], 'event': ['__class__', 'isSet']}
MAX_OPS_PER_OBJECT = 12


# ====================================================================== sequential models
class PyModel:
    """The local Python object itself is the model (list, dict, array, Namespace, Value)."""

    def __init__(self, t, obj):
        self.t = t
        self.obj = obj

    def copy(self):
        t, o = self.t, self.obj
        if t == 'ns':
            n = type(o)()
            n.__dict__.update(o.__dict__)
        elif t == 'value':
            n = type(o)(o._typecode, o._value)
        elif t == 'array':
            n = array.array(o.typecode, o)
        else:
            n = copy.copy(o)
        return PyModel(t, n)

    def key(self):
        t, o = self.t, self.obj
        if t == 'ns':
            return repr(sorted(o.__dict__.items()))
        if t == 'value':
            return repr(o._value)
        if t == 'dict':
            return repr(list(o.items()))
        return repr(o)

    fkey = key

    def apply(self, method, args, me=None):
        o = self.obj
        try:
            if method == '__str__':
                r = repr(o)
            elif method == '#GETVALUE':
                r = copy.copy(o)
            elif method == '__iadd__':
                r = o.extend(*args)
            elif method == '__imul__':
                o *= args[0]
                r = None
            elif self.t == 'ns':
                f = {'getattr': getattr, 'setattr': setattr, 'delattr': delattr}[method]
                r = f(o, *args)
            elif self.t == 'value' and method == 'value':
                r = o.value
            elif self.t == 'value' and method == 'value=':
                o.value = args[0]
                r = None
            else:
                r = getattr(o, method)(*args)
        except Exception as exc:        # noqa
            return ('exc', type(exc).__name__)
        return ('ok', _norm(r))


class LockModel:
    def __init__(self, locked=False):
        self.locked = locked

    def copy(self):
        return LockModel(self.locked)

    def key(self):
        return self.locked

    fkey = key

    def apply(self, method, args, me=None):
        if method == 'acquire':
            blocking = args[0] if args else True
            timeout = args[1] if len(args) > 1 else None
            if not self.locked:
                self.locked = True
                return ('ok', True)
            if not blocking or (timeout is not None and timeout >= 0):
                return ('ok', False)
            return None                 # an untimed acquire cannot take effect while the lock is held
        if method == 'release':
            if self.locked:
                self.locked = False
                return ('ok', None)
            return ('exc', 'RuntimeError')
        raise ValueError(method)


class QueueModel:
    def __init__(self, maxsize=0, items=(), unfinished=0):
        self.maxsize = maxsize
        self.q = collections.deque(items)
        self.unfinished = unfinished

    def copy(self):
        return QueueModel(self.maxsize, self.q, self.unfinished)

    def key(self):
        return repr((list(self.q), self.unfinished))

    fkey = key

    def apply(self, method, args, me=None):
        q = self.q
        if method == 'put_nowait':
            method, args = 'put', [args[0], False]
        elif method == 'get_nowait':
            method, args = 'get', [False]
        if method == 'task_done':
            if self.unfinished <= 0:
                return ('exc', 'ValueError')
            self.unfinished -= 1
            return ('ok', None)
        if method == 'put':
            block = args[1] if len(args) > 1 else True
            timeout = args[2] if len(args) > 2 else None
            if self.maxsize > 0 and len(q) >= self.maxsize:
                if not block or timeout is not None:
                    return ('exc', 'Full')
                return None
            q.append(args[0])
            self.unfinished += 1
            return ('ok', None)
        if method == 'get':
            block = args[0] if args else True
            timeout = args[1] if len(args) > 1 else None
            if not q:
                if not block or timeout is not None:
                    return ('exc', 'Empty')
                return None
            return ('ok', q.popleft())
        if method == 'qsize':
            return ('ok', len(q))
        if method == 'empty':
            return ('ok', not q)
        if method == 'full':
            return ('ok', 0 < self.maxsize <= len(q))
        raise ValueError(method)


class RLockModel:
    """threading.RLock: owned by the calling thread.  `me` identifies the caller."""

    def __init__(self, owner=None, count=0):
        self.owner, self.count = owner, count

    def copy(self):
        return RLockModel(self.owner, self.count)

    def key(self):
        return (self.owner, self.count)

    def fkey(self):
        return self.count

    def apply(self, method, args, me=None):
        if method == 'acquire':
            blocking = args[0] if args else True
            timeout = args[1] if len(args) > 1 else None
            if self.owner is None or self.owner == me:
                self.owner = me
                self.count += 1
                return ('ok', True)
            if not blocking or (timeout is not None and timeout >= 0):
                return ('ok', False)
            return None
        if method == 'release':
            if self.owner is None or self.owner != me:
                return ('exc', 'RuntimeError')
            self.count -= 1
            if self.count == 0:
                self.owner = None
            return ('ok', None)
        raise ValueError(method)


class SemModel:
    def __init__(self, value, bound=None):
        self.value, self.bound = value, bound

    def copy(self):
        return SemModel(self.value, self.bound)

    def key(self):
        return self.value

    fkey = key

    def apply(self, method, args, me=None):
        if method == 'acquire':
            blocking = args[0] if args else True
            timeout = args[1] if len(args) > 1 else None
            if self.value > 0:
                self.value -= 1
                return ('ok', True)
            if not blocking or timeout is not None:
                return ('ok', False)
            return None
        if method == 'release':
            if self.bound is not None and self.value >= self.bound:
                return ('exc', 'ValueError')
            self.value += 1
            return ('ok', None)
        raise ValueError(method)


class EventModel:
    def __init__(self, flag=False):
        self.flag = flag

    def copy(self):
        return EventModel(self.flag)

    def key(self):
        return self.flag

    fkey = key

    def apply(self, method, args, me=None):
        if method in ('is_set', 'wait'):        # a timed wait reports the flag as of its last look
            return ('ok', self.flag)
        self.flag = method == 'set'
        return ('ok', None)


_CUR = {}
_ADDR = re.compile(r' at 0x[0-9a-fA-F]+')


def _existing(ident):
    """Server side: the referent that already lives under `ident` (a callable that hands out an existing
    object, as in the remote-manager recipe of the documentation)."""
    ent = _CUR['srv'].id_to_obj.get(ident)
    if ent is not None:
        return ent[0]
    return _CUR['keep'][ident]      # the application's own object outlives the server's bookkeeping of it


def _ensure_getters(M):
    reg = M.SyncManager._registry
    for typeid in sorted(reg):
        if typeid.startswith('again_') or ('again_' + typeid) in reg:
            continue
        _callable, exposed, method_to_typeid, proxytype = reg[typeid]
        if proxytype is None:
            continue
        M.SyncManager.register('again_' + typeid, callable=_existing, proxytype=proxytype, exposed=exposed,
                               method_to_typeid=method_to_typeid)


def typeid_of(spec):
    if spec['t'] == 'sem':
        return 'BoundedSemaphore' if spec.get('bounded') else 'Semaphore'
    return TYPEID[spec['t']]


def _norm(r):
    """Results as they compare after a pickle round trip: dict views and tuples become lists."""
    if isinstance(r, (list, tuple, type({}.keys()), type({}.values()), type({}.items()))):
        return [_norm(x) for x in r]
    return r


def make_model(spec):
    t = spec['t']
    import billiard.managers as M
    if t == 'list':
        return PyModel(t, list(spec['init']))
    if t == 'dict':
        return PyModel(t, dict(spec['init']))
    if t == 'ns':
        return PyModel(t, M.Namespace())
    if t == 'value':
        return PyModel(t, M.Value('i', spec['init']))
    if t == 'array':
        return PyModel(t, array.array('i', spec['init']))
    if t == 'lock':
        return LockModel()
    if t == 'queue':
        return QueueModel(spec.get('maxsize', 0))
    if t == 'rlock':
        return RLockModel()
    if t == 'sem':
        return SemModel(spec['value'], spec['value'] if spec.get('bounded') else None)
    if t == 'event':
        return EventModel()
    raise ValueError(t)


def create_args(spec):
    t = spec['t']
    if t == 'list':
        return (list(spec['init']),)
    if t == 'dict':
        return (dict(spec['init']),)
    if t == 'value':
        return ('i', spec['init'])
    if t == 'array':
        return ('i', list(spec['init']))
    if t == 'queue':
        return (spec.get('maxsize', 0),)
    if t == 'sem':
        return (spec['value'],)
    return ()


def referent_key(t, obj):
    """State of the real referent in the server, in the models' key() vocabulary."""
    if t in ('list', 'dict', 'ns', 'value', 'array'):
        return PyModel(t, obj).key()
    if t == 'lock':
        return bool(obj._locked)
    if t == 'queue':
        return repr((list(obj.queue), obj.unfinished_tasks))
    if t == 'rlock':
        return obj._count
    if t == 'sem':
        return obj._value
    if t == 'event':
        return bool(obj._flag)
    raise ValueError(t)


# ====================================================================== linearizability (WGL-style search)
def _match(model_out, op, loose_exc=False):
    kind = op['kind']
    act = op['out']
    if kind == 'nonexp':
        return act[0] == 'exc'
    if model_out[0] != act[0]:
        return False
    if model_out[0] == 'exc':
        return loose_exc or model_out[1] == act[1]
    return model_out[1] == act[1] and type(model_out[1]) is type(act[1])


def linearizable(model0, ops, final_key=None, loose_exc=False, me_key='me'):
    """ops: dicts with b, e (None = pending), kind ('call'|'nonexp'), method, args, out.
    True iff some total order consistent with real time explains every completed outcome
    (and the final referent state, when given)."""
    n = len(ops)
    full = 0
    for i, o in enumerate(ops):
        if o['e'] is not None:
            full |= 1 << i
    memo = set()
    INF = float('inf')

    def rec(mask, model):
        if mask & full == full and (final_key is None or model.fkey() == final_key):
            return True
        mk = (mask, model.key())
        if mk in memo:
            return False
        memo.add(mk)
        min_e = INF
        for i, o in enumerate(ops):
            if not mask >> i & 1 and o['e'] is not None and o['e'] < min_e:
                min_e = o['e']
        for i, o in enumerate(ops):
            if mask >> i & 1 or o['b'] > min_e:
                continue
            m2 = model.copy()
            if o['kind'] == 'nonexp':
                out = ('exc', '*')          # a refused call has no effect
            else:
                out = m2.apply(o['method'], o['args'], o.get(me_key))
                if out is None:
                    continue
            if o['e'] is None or _match(out, o, loose_exc):
                if rec(mask | 1 << i, m2):
                    return True
        return False
    return rec(0, model0)


# ====================================================================== generation
def _key(rng):
    while True:
        n = rng.choice([1, 4, 8, 16, 32, 64, 65, 100])
        key = bytes(rng.getrandbits(8) for _ in range(n))
        if not key.endswith(b'\0'):
            return key


def _bad_key(rng, key):
    while True:
        kind = rng.choice(['rand', 'bitflip', 'prefix', 'extend', 'empty'])
        if kind == 'rand':
            bad = bytes(rng.getrandbits(8) for _ in range(rng.choice([1, 8, len(key)])))
        elif kind == 'bitflip':
            b = bytearray(key)
            b[rng.randrange(len(b))] ^= 1 << rng.randrange(8)
            bad = bytes(b)
        elif kind == 'prefix':
            bad = key[:-1]
        elif kind == 'extend':
            bad = key + bytes([rng.randrange(1, 256)])
        else:
            bad = b''
        if bad != key and bad.rstrip(b'\0') != key.rstrip(b'\0'):
            return bad


def _obj_spec(rng, uniq):
    t = rng.choice(TYPES)
    spec = {'t': t}
    if t == 'list':
        spec['init'] = [uniq() for _ in range(rng.randint(0, 3))]
    elif t == 'dict':
        spec['init'] = {k: uniq() for k in rng.sample(['a', 'b', 'c'], rng.randint(0, 2))}
    elif t == 'value':
        spec['init'] = uniq()
    elif t == 'array':
        spec['init'] = [uniq() for _ in range(rng.randint(1, 3))]
    elif t == 'queue':
        spec['maxsize'] = rng.choice([0, 0, 1, 2])
    elif t == 'sem':
        spec['bounded'] = rng.random() < 0.5
        spec['value'] = rng.choice([1, 2])
    return spec


def _gen_call(rng, spec, uniq, pool):
    """One proxy operation: [kind, method, args] (kind 'call' or 'nonexp' or 'lk')."""
    t = spec['t']
    if rng.random() < 0.07:
        return ['nonexp', rng.choice(NONEXPOSED[t]), []]

    def new():
        v = uniq()
        pool.append(v)
        return v

    def old():
        return rng.choice(pool) if pool and rng.random() < 0.8 else uniq()
    idx = rng.choice([0, 0, 1, -1, 2, 3, 5])
    if t == 'list':
        m = rng.choice(['append', 'append', 'extend', 'pop', 'pop_i', '__getitem__', '__setitem__', '__len__',
                        'count', 'index', 'reverse', 'sort', '__contains__', 'insert', 'remove', '__delitem__',
                        '__iadd__', '__imul__', '__str__', '#GETVALUE'])
        args = {'append': lambda: [new()], 'extend': lambda: [[new(), new()]], 'pop': lambda: [],
                'pop_i': lambda: [idx], '__getitem__': lambda: [idx], '__setitem__': lambda: [idx, new()],
                '__len__': lambda: [], 'count': lambda: [old()], 'index': lambda: [old()], 'reverse': lambda: [],
                'sort': lambda: [], '__contains__': lambda: [old()], 'insert': lambda: [idx, new()],
                'remove': lambda: [old()], '__delitem__': lambda: [idx], '__iadd__': lambda: [[new()]],
                '__imul__': lambda: [rng.choice([0, 2])], '__str__': lambda: [], '#GETVALUE': lambda: []}[m]()
        return ['call', 'pop' if m == 'pop_i' else m, args]
    if t == 'dict':
        kk = rng.choice(['a', 'b', 'c'])
        m = rng.choice(['__setitem__', '__setitem__', '__getitem__', 'get', 'get_d', 'pop', 'pop_d', 'setdefault',
                        'update', 'keys', 'values', 'items', '__len__', '__contains__', '__delitem__', 'clear',
                        'popitem', 'copy', '__str__', '#GETVALUE'])
        args = {'__setitem__': lambda: [kk, new()], '__getitem__': lambda: [kk], 'get': lambda: [kk],
                'get_d': lambda: [kk, uniq()], 'pop': lambda: [kk], 'pop_d': lambda: [kk, uniq()],
                'setdefault': lambda: [kk, new()], 'update': lambda: [{kk: new()}], 'keys': lambda: [],
                'values': lambda: [], 'items': lambda: [], '__len__': lambda: [], '__contains__': lambda: [kk],
                '__delitem__': lambda: [kk], 'clear': lambda: [], 'popitem': lambda: [], 'copy': lambda: [],
                '__str__': lambda: [], '#GETVALUE': lambda: []}[m]()
        return ['call', {'get_d': 'get', 'pop_d': 'pop'}.get(m, m), args]
    if t == 'ns':
        name = rng.choice(['x', 'y'])
        m = rng.choice(['setattr', 'setattr', 'setattr', 'getattr', 'getattr', 'getattr', 'delattr', '__str__'])
        if m == '__str__':
            return ['call', m, []]
        return ['call', m, [name, new()] if m == 'setattr' else [name]]
    if t == 'value':
        m = rng.choice(['get', 'set', 'value', 'value=', 'get', 'set', 'value', 'value=', '__str__'])
        return ['call', m, [new()] if m in ('set', 'value=') else []]
    if t == 'array':
        m = rng.choice(['__getitem__', '__getitem__', '__setitem__', '__setitem__', '__len__', '__str__',
                        '#GETVALUE'])
        if m == '__setitem__':
            return ['call', m, [idx, rng.choice([new(), new(), new(), 'x'])]]
        return ['call', m, [idx] if m == '__getitem__' else []]
    if t == 'lock':
        r = rng.random()
        if r < 0.85:
            blocking = rng.random() < 0.7
            timeout = rng.choice([None, None, 0.2, 1.0]) if blocking else None
            return ['lk', 'acquire', [blocking, timeout, rng.randint(0, 2)]]
        return ['call', 'release', []]
    if t == 'queue':
        bounded = spec.get('maxsize', 0) > 0
        m = rng.choice(['put', 'put', 'put', 'get_nb', 'get_t', 'get_t', 'qsize', 'empty', 'full', 'task_done',
                        'put_nowait', 'get_nowait'])
        if m == 'put_nowait':
            return ['call', m, [new()]]
        if m == 'put':
            if bounded or rng.random() < 0.3:
                return ['call', 'put', [new()] + rng.choice([[False], [True, 0.2]])]
            return ['call', 'put', [new()]]
        if m == 'get_nb':
            return ['call', 'get', [False]]
        if m == 'get_t':
            return ['call', 'get', [True, rng.choice([0.1, 0.5])]]
        return ['call', m, []]
    if t in ('rlock', 'sem'):
        # acquire and release are separate program steps (other operations of the same thread, proxy
        # life-cycle operations included, may come in between); acquires never wait without a timeout
        if rng.random() < 0.55:
            return ['call', 'acquire', rng.choice([[False], [True, 0.2], [True, 1.0], [True, 0.0]])]
        return ['call', 'release', []]
    if t == 'event':
        m = rng.choice(['is_set', 'is_set', 'set', 'set', 'clear', 'wait'])
        return ['call', m, [rng.choice([0.1, 0.5])] if m == 'wait' else []]
    raise ValueError(t)


def generate(rng, tier, prop='C20'):
    counter = [100]

    def uniq():
        counter[0] += 1
        return counter[0]
    key = _key(rng)
    nbase = rng.randint(1, 3)
    objects = [_obj_spec(rng, uniq) for _ in range(nbase)]
    for o in objects:
        o['late'] = False
    nclients = rng.choice([1, 2, 2, 3])
    clients = []
    for ci in range(nclients):
        c = {'parent': None if ci == 0 else rng.randrange(ci), 'threads': [], 'objs': list(range(nbase)),
             'how': rng.choice(['spawn', 'spawn', 'plain'])}
        if ci > 0:
            c['objs'] = sorted(rng.sample(range(nbase), rng.randint(1, nbase)))
            # a child can only be given what its parent holds
            c['objs'] = [o for o in c['objs'] if o in clients[c['parent']]['objs']] or \
                clients[c['parent']]['objs'][:1]
        clients.append(c)
    nops = [0] * 16
    pools = [[] for _ in range(16)]
    for o_i, o in enumerate(objects):
        if o['t'] == 'list':
            pools[o_i].extend(o['init'])
    nslot = [0]
    for ci, c in enumerate(clients):
        for ti in range(rng.choice([1, 1, 2])):
            live = {'o%d' % o: o for o in c['objs']}          # slot -> object index
            prog = []
            for _ in range(rng.randint(2, 6)):
                r = rng.random()
                usable = [s for s, o in sorted(live.items()) if nops[o] < MAX_OPS_PER_OBJECT]
                if r < 0.13 and len(objects) < nbase + 3:
                    spec = _obj_spec(rng, uniq)
                    spec['late'] = True
                    objects.append(spec)
                    oid = len(objects) - 1
                    if spec['t'] == 'list':
                        pools[oid].extend(spec['init'])
                    nslot[0] += 1
                    slot = 'n%d' % nslot[0]
                    live[slot] = oid
                    prog.append(['new', slot, oid])
                    if rng.random() < 0.5:
                        # short-lived object: use it once and drop it, so that its count reaches zero
                        # (and its ident may be reused) while other clients are still at work
                        op = _gen_call(rng, spec, uniq, pools[oid])
                        nops[oid] += 2 if op[0] == 'lk' else 1
                        prog.append([op[0], slot, op[1], op[2]])
                        prog.append(['drop', slot])
                        del live[slot]
                elif r < 0.22 and live:
                    src = rng.choice(sorted(live))
                    nslot[0] += 1
                    slot = 'c%d' % nslot[0]
                    live[slot] = live[src]
                    prog.append(['copy', src, slot])
                elif r < 0.29 and live:
                    # a second proxy for the SAME server-side object, obtained from the manager through a
                    # registered callable that returns the existing object (register('get_x', callable=lambda: x))
                    src = rng.choice(sorted(live))
                    nslot[0] += 1
                    slot = 'g%d' % nslot[0]
                    live[slot] = live[src]
                    prog.append(['again', src, slot])
                elif r < 0.33:
                    # a proxy for an object this thread may hold no proxy of any more, asked for by name (the
                    # callable returns the application's object): races with the last release elsewhere
                    oid = rng.randrange(nbase)
                    nslot[0] += 1
                    slot = 'r%d' % nslot[0]
                    live[slot] = oid
                    prog.append(['regain', slot, oid])
                elif r < 0.40 and live:
                    slot = rng.choice(sorted(live))
                    del live[slot]
                    prog.append(['drop', slot])
                elif r < 0.45:
                    prog.append(['tick', rng.randint(1, 3)])
                elif usable:
                    slot = rng.choice(usable)
                    oid = live[slot]
                    op = _gen_call(rng, objects[oid], uniq, pools[oid])
                    nops[oid] += 2 if op[0] == 'lk' else 1
                    prog.append([op[0], slot, op[1], op[2]])
            c['threads'].append(prog)
    bad = []
    if rng.random() < 0.5:
        for _ in range(rng.randint(1, 2)):
            bad.append({'kind': rng.choice(['connect', 'client', 'proxy', 'raw_noauth', 'raw_ignore_verdict']),
                        'key': _bad_key(rng, key).hex(), 'delay': rng.randint(0, 12), 'v': uniq()})
    focus = None
    if rng.random() < 0.12:
        # the last proxy of an object is released by one thread while another asks the manager for the same
        # (application-owned) object again
        focus = 'decref-window'
        objects = objects[:1]
        objects[0]['late'] = False
        op = _gen_call(rng, objects[0], uniq, pools[0])
        clients = [{'parent': None, 'objs': [0], 'how': 'spawn', 'threads': [
            [['tick', rng.randint(0, 4)], ['drop', 'o0'], ['tick', 1]],
            [['drop', 'o0'], ['tick', rng.randint(0, 4)], ['regain', 'r1', 0], [op[0], 'r1', op[1], op[2]]]]}]
        bad = []
    if focus is None and rng.random() < 0.1:
        # str() of a Namespace (the server formats it attribute by attribute) while another client adds and
        # removes attributes
        focus = 'ns-repr'
        objects = [{'t': 'ns', 'late': False}]
        v = [uniq() for _ in range(6)]
        clients = [{'parent': None, 'objs': [0], 'how': 'spawn', 'threads': [
            [['call', 'o0', 'setattr', ['x', v[0]]], ['call', 'o0', 'setattr', ['y', v[1]]],
             ['call', 'o0', '__str__', []], ['call', 'o0', '__str__', []], ['call', 'o0', '__str__', []]],
            [['tick', rng.randint(0, 3)], ['call', 'o0', 'setattr', ['x', v[2]]], ['call', 'o0', 'delattr', ['y']],
             ['call', 'o0', 'setattr', ['y', v[3]]], ['call', 'o0', 'delattr', ['x']],
             ['call', 'o0', 'setattr', ['x', v[4]]]]]}]
        bad = []
    return {'key': key.hex(), 'objects': objects, 'clients': clients, 'bad': bad, 'focus': focus,
            'short_io': rng.random() < 0.3, 'pipe_cap': rng.choice([256, 4096, 65536]),
            'keep_tb': rng.random() < 0.3, 'policy': rng.choice(POLICIES),
            'line_prob': rng.choice([0, 0, 0.15, 0.4])}


def shrink(case):
    def clone():
        return copy.deepcopy(case)
    # drop a wrong-key client
    for i in range(len(case['bad'])):
        c = clone()
        del c['bad'][i]
        yield c
    # drop a leaf client process
    parents = set(cl['parent'] for cl in case['clients'])
    for i in range(len(case['clients']) - 1, 0, -1):
        if i not in parents:
            c = clone()
            del c['clients'][i]
            for cl in c['clients']:
                if cl['parent'] is not None and cl['parent'] > i:
                    cl['parent'] -= 1
            yield c
    # drop a thread (never the main thread), then single operations
    for i, cl in enumerate(case['clients']):
        for t in range(len(cl['threads']) - 1, 0, -1):
            c = clone()
            del c['clients'][i]['threads'][t]
            yield c
    for i, cl in enumerate(case['clients']):
        for t, prog in enumerate(cl['threads']):
            for j in range(len(prog) - 1, -1, -1):
                c = clone()         # operations on a slot that no longer exists are skipped by execute()
                del c['clients'][i]['threads'][t][j]
                yield c
    for key, val in (('short_io', False), ('keep_tb', False), ('pipe_cap', 65536), ('policy', 'fifo')):
        if case.get(key) != val:
            c = clone()
            c[key] = val
            yield c


# ====================================================================== execution
_TRACED = {}


def _traced_server_class(M):
    """Server subclass that logs which connection reached which public function (post-authentication)
    and watches incref/decref overlap; the real methods do all the work."""
    cls = _TRACED.get(M.Server)
    if cls is not None:
        return cls

    class TracedServer(M.Server):
        def handle_request(self, c):
            state.K.record('srv-conn', c.fileno())
            M.Server.handle_request(self, c)

    def wrap(name):
        def f(self, c, *a, **kw):
            k = state.K
            k.record('srv-call', c.fileno(), name)
            h = self._harness
            fl = h['inflight']
            tozero = False
            if name == 'decref':
                tozero = bool(a) and self.id_to_refcount.get(a[0]) == 1
                if tozero and fl['incref']:
                    k.probe('decref_to_zero_while_other_increfs')
            elif name == 'incref' and fl['decref0']:
                k.probe('decref_to_zero_while_other_increfs')
            if name in ('incref', 'decref'):
                fl[name] += 1
                fl['decref0'] += tozero
            try:
                return getattr(M.Server, name)(self, c, *a, **kw)
            except Exception as exc:        # noqa
                h['srv_errors'].append((name, type(exc).__name__))
                raise
            finally:
                if name in ('incref', 'decref'):
                    fl[name] -= 1
                    fl['decref0'] -= tozero
        f.__name__ = name
        return f
    for name in M.Server.public:
        setattr(TracedServer, name, wrap(name))
    _TRACED[M.Server] = TracedServer
    return TracedServer


def _role(actor):
    """'client0-5002.main' -> 'client', 'server-5001.Thread#3' -> 'server-thread' (stable across runs)."""
    proc = re.sub(r'[0-9]*-[0-9]*$', '', actor.name.split('.')[0])
    sub = actor.name.split('.', 1)[1] if '.' in actor.name else ''
    return proc if sub in ('main', 'user') else '%s-%s' % (proc, re.sub(r'[#0-9]', '', sub).lower())


def _purge_previous_run():
    """Runs share a forked interpreter (RUNS_PER_FORK) with the cyclic GC switched off.  Garbage cycles of
    the previous run (exception <-> frame cycles holding proxies and Connection objects with that run's fd
    numbers) must not be collected inside this run, where their finalizers would act on this run's kernel."""
    import billiard.util as U
    state.K = None
    U._finalizer_registry.clear()
    gc.collect()


def execute(case, seed, choices=None):
    _purge_previous_run()
    k = new_kernel(seed, {'policy': case.get('policy', 'random'), 'horizon': 200.0, 'max_steps': 60000,
                          'pipe_cap': case.get('pipe_cap', 65536), 'short_io': case.get('short_io', False)},
                   choices)
    seams_mgr.install_mgr()
    if case.get('focus') == 'decref-window':
        # the window between the last decrement of a referent's count and its disposal
        k.enable_func_preemption(('billiard/managers.py',), ('decref',), 0.7, 0.9)
    elif case.get('focus') == 'ns-repr':
        k.enable_func_preemption(('billiard/managers.py',), ('__repr__',), 0.7, 0.9)
    elif case.get('line_prob'):
        # a server thread can lose the processor between any two lines of the reference-counting code
        k.enable_func_preemption(('billiard/managers.py',), ('create', 'incref', 'decref', '_incref', '_decref',
                                                             '__repr__'),
                                 case['line_prob'])
    import hmac
    import billiard.managers as M
    import billiard.connection as C
    import billiard.util as U
    from billiard import AuthenticationError
    key = bytes.fromhex(case['key'])
    objects = case['objects']
    clients = case['clients']
    bads = case.get('bad', [])
    keep_tb = case.get('keep_tb', False)
    nobj = len(objects)

    def authkey_of(proc):
        if proc.name.startswith('bad'):
            return bytes.fromhex(bads[int(proc.name[3:].rstrip('-'))]['key'])
        return key
    seams_mgr.per_process_state(k, authkey_of)

    viol = []
    hist = [[] for _ in objects]            # per object: operation records
    wrefs = [[] for _ in objects]           # per object: weakref of every proxy ever made for it
    idents = [None] * nobj                  # server ident per object (id()-derived: never logged)
    ident_seen = {}
    tokens = {}
    holds = {}                              # id(proxy) -> number of harness references (slots + pins)
    seq = [0]
    flags = {'srv': None, 'go': False, 'snap': None}
    done, rebuilt, procs, tables, pins, pcs = {}, {}, {}, {}, {}, {}
    bad_res = {}
    epochs = {}
    remote_tb = []
    harness = {'inflight': {'incref': 0, 'decref': 0, 'decref0': 0}, 'srv_errors': []}
    stats = {'lifecycle': 0}

    def bad(clause, sig, detail):
        viol.append(V(clause, sig, detail))

    # ------------------------------------------------------------------ proxy bookkeeping (ground truth)
    def reg_proxy(p, oid):
        ident = p._token.id
        ent = flags['srv'].id_to_obj.get(ident) if flags.get('srv') is not None else None
        if ent is not None and 'keep' in _CUR:
            _CUR['keep'].setdefault(ident, ent[0])
        if idents[oid] is None:
            idents[oid] = ident
            prev = ident_seen.get(ident)
            if prev is not None and prev != oid:
                k.probe('ident_reused')
            ident_seen[ident] = oid
        elif idents[oid] != ident:
            bad('C20.c', 'token-id-changed', 'object %d: a copy names another server object' % oid)
        wrefs[oid].append(weakref.ref(p))

    def take(table, soid, slot, p, oid):
        table[slot] = p
        soid[slot] = oid
        holds[id(p)] = holds.get(id(p), 0) + 1

    def drop(table, slot):
        """Delete one harness reference; if it was the last, the proxy dies here and its
        Finalize -> BaseProxy._decref runs in the calling actor."""
        p = table.pop(slot)
        i = id(p)
        wr = weakref.ref(p)
        holds[i] -= 1
        last = holds[i] == 0
        if last:
            del holds[i]
        del p
        if last:
            stats['lifecycle'] += 1
            if wr() is not None:
                # kept alive by an exception <-> frame cycle: "a GC pass happens now"
                k.probe('drop_needed_gc')
                gc.collect()

    def live_count(oid):
        return sum(1 for w in wrefs[oid] if w() is not None)

    # ------------------------------------------------------------------ one proxy operation
    def invoke(p, t, kind, method, args):
        if kind == 'nonexp':
            return p._callmethod(method, tuple(args))
        if method == '__str__':
            return str(p)
        if method == '#GETVALUE':
            return p._getvalue()
        if method in ('__iadd__', '__imul__'):
            if getattr(p, method)(*args) is not p:
                raise AssertionError('%s did not return the proxy' % method)
            return None
        if t == 'ns':
            if method == 'getattr':
                return getattr(p, args[0])
            if method == 'setattr':
                return setattr(p, args[0], args[1])
            return delattr(p, args[0])
        if t == 'value' and method == 'value':
            return p.value
        if t == 'value' and method == 'value=':
            p.value = args[0]
            return None
        return getattr(p, method)(*args)

    def do_call(who, table, soid, slot, kind, method, args):
        oid = soid[slot]
        t = objects[oid]['t']
        seq[0] += 1
        thr = '.'.join(who.split('.')[:2])
        if not hasattr(table[slot]._tls, 'connection'):
            epochs[thr] = epochs.get(thr, 0) + 1        # this call opens a new connection = a new server thread
        rec = {'b': seq[0], 'e': None, 'kind': kind, 'method': method, 'args': args, 'out': None, 'who': who,
               'me': thr, 'me_epoch': '%s/%d' % (thr, epochs.get(thr, 0))}
        hist[oid].append(rec)
        k.record('B', oid, who, kind, method, repr(args))
        try:
            out = ('ok', _norm(invoke(table[slot], t, kind, method, args)))
        except Exception as exc:        # noqa
            out = ('exc', type(exc).__name__)
            if isinstance(exc, M.RemoteError) and kind == 'call':
                remote_tb.append((oid, method, str(exc)[-400:]))
            if not keep_tb:
                exc.__traceback__ = None
        seq[0] += 1
        rec['e'] = seq[0]
        rec['out'] = out
        k.record('E', oid, who, _ADDR.sub(' at 0x?', repr(out)))     # (a failed __str__ falls back to a repr with an address)
        return out

    def create_obj(m, oid):
        spec = objects[oid]
        p = getattr(m, typeid_of(spec))(*create_args(spec))
        reg_proxy(p, oid)
        tokens[oid] = (p._token.typeid, p._token.address, p._token.id)
        return p

    def release_pins(ci, wait=False):
        for j in sorted(pins.get(ci, {})):
            if wait and not rebuilt.get(j) and not procs[j].dead:
                a = k.enter('wait-rebuilt')
                k.wait_until(a, lambda j=j: rebuilt.get(j) or procs[j].dead, None, 'wait-rebuilt')
            if rebuilt.get(j) or procs[j].dead:
                tbl = pins[ci].pop(j)
                for s in sorted(tbl):
                    drop(tbl, s)

    def run_prog(ci, ti, prog, table, soid, m):
        for pc, op in enumerate(prog):
            pcs[(ci, ti)] = pc
            if ti == 0:
                release_pins(ci)
            kind = op[0]
            who = '%d.%d.%d' % (ci, ti, pc)
            if kind == 'tick':
                for _ in range(op[1]):
                    k.yield_('tick')
                continue
            slot = op[1]
            if kind == 'new':
                try:
                    p = create_obj(m, op[2])
                except Exception as exc:        # noqa
                    bad('C20.c', 'lifecycle-op-failed:new:%s' % type(exc).__name__, '%s: %r' % (who, exc))
                    continue
                k.probe('late_create')
                k.record('new', who, op[2])
                take(table, soid, slot, p, op[2])
                del p
                continue
            if kind == 'regain':
                tok = tokens.get(op[2]) if isinstance(tokens, dict) else tokens[op[2]]
                if tok is None:
                    continue
                stats['lifecycle'] += 1
                tid = tok[0]
                while tid.startswith('again_'):
                    tid = tid[6:]
                try:
                    p2 = getattr(m, 'again_' + tid)(tok[2])
                except Exception as exc:        # noqa
                    bad('C20.c', 'lifecycle-op-failed:regain:%s' % type(exc).__name__, '%s: %r' % (who, exc))
                    continue
                k.probe('proxy_regained_by_name')
                k.record('regain', who, op[2])
                reg_proxy(p2, op[2])
                take(table, soid, slot, p2, op[2])
                del p2
                continue
            if slot not in table:
                continue
            if kind in ('call', 'nonexp'):
                do_call(who, table, soid, slot, kind, op[2], list(op[3]))
            elif kind == 'lk':
                blocking, timeout, hold = op[3]
                out = do_call(who + 'a', table, soid, slot, 'call', 'acquire',
                              [blocking] if timeout is None else [blocking, timeout])
                if out == ('ok', True):
                    for _ in range(hold):
                        k.yield_('tick')
                    do_call(who + 'r', table, soid, slot, 'call', 'release', [])
            elif kind == 'copy':
                dst = op[2]
                stats['lifecycle'] += 1
                try:
                    p2 = pickle.loads(pickle.dumps(table[slot]))
                except Exception as exc:        # noqa
                    bad('C20.c', 'lifecycle-op-failed:copy:%s' % type(exc).__name__, '%s: %r' % (who, exc))
                    continue
                if not isinstance(p2, M.BaseProxy):
                    bad('C20.c', 'copy-not-a-proxy', '%s: unpickled %s' % (who, type(p2).__name__))
                    continue
                k.probe('proxy_pickled_copy')
                k.record('copy', who, soid[slot])
                reg_proxy(p2, soid[slot])
                take(table, soid, dst, p2, soid[slot])
                del p2
            elif kind == 'again':
                dst = op[2]
                stats['lifecycle'] += 1
                src_p = table[slot]
                try:
                    tid = src_p._token.typeid
                    while tid.startswith('again_'):
                        tid = tid[6:]
                    p2 = getattr(m, 'again_' + tid)(src_p._token.id)
                except Exception as exc:        # noqa
                    bad('C20.c', 'lifecycle-op-failed:again:%s' % type(exc).__name__, '%s: %r' % (who, exc))
                    continue
                if not isinstance(p2, M.BaseProxy) or p2._token.id != src_p._token.id:
                    bad('C20.c', 'again-not-the-same-referent', '%s: got %r for %r' % (who, getattr(p2, '_token', p2),
                                                                                      src_p._token))
                    continue
                k.probe('second_proxy_through_create')
                k.record('again', who, soid[slot])
                reg_proxy(p2, soid[slot])
                take(table, soid, dst, p2, soid[slot])
                del p2, src_p
            elif kind == 'drop':
                k.record('drop', who, soid[slot])
                drop(table, slot)
        pcs[(ci, ti)] = len(prog)

    # ------------------------------------------------------------------ processes
    def server_main():
        _ensure_getters(M)
        srv = _traced_server_class(M)(M.SyncManager._registry, ADDR, key, 'pickle')
        srv._harness = harness
        flags['srv'] = srv
        _CUR['srv'] = srv
        _CUR['keep'] = {}
        try:
            srv.serve_forever()
        except SystemExit:
            pass
        k.exit_now(0)

    def client_main(ci, data=None):
        c = clients[ci]
        table, soid = {}, {}
        tables[ci] = [(table, soid)]
        m = None
        try:
            m = M.SyncManager(address=ADDR, authkey=key)
            m.connect()
            if ci == 0:
                for oid in c['objs']:
                    p = create_obj(m, oid)
                    take(table, soid, 'o%d' % oid, p, oid)
                    del p
            else:
                plist = pickle.loads(data)
                for oid, p in zip(c['objs'], plist):
                    if not isinstance(p, M.BaseProxy):
                        bad('C20.c', 'rebuilt-not-a-proxy', 'client %d got %s' % (ci, type(p).__name__))
                        continue
                    reg_proxy(p, oid)
                    take(table, soid, 'o%d' % oid, p, oid)
                del plist, p
                k.probe('proxy_rebuilt_in_child')
                stats['lifecycle'] += 1
        except Exception as exc:        # noqa
            bad('C20.c', 'lifecycle-op-failed:setup:%s' % type(exc).__name__, 'client %d: %r' % (ci, exc))
        rebuilt[ci] = True
        k.record('client-ready', ci, sorted(soid.values()))
        # children get pickled proxies; this process pins what it sent until the child has rebuilt them
        for j, cj in enumerate(clients):
            if cj['parent'] != ci:
                continue
            ptbl, psoid = {}, {}
            for oid in cj['objs']:
                if 'o%d' % oid in table:
                    take(ptbl, psoid, oid, table['o%d' % oid], oid)
            plist = [ptbl[oid] for oid in sorted(ptbl)]
            cj_objs = sorted(ptbl)
            try:
                if cj['how'] == 'spawn':
                    cdata, _fds = dump_for_child(plist)
                else:
                    cdata = pickle.dumps(plist)
            except Exception as exc:        # noqa
                bad('C20.c', 'lifecycle-op-failed:pickle:%s' % type(exc).__name__, 'client %d: %r' % (ci, exc))
                cdata = pickle.dumps([])
            del plist
            pins.setdefault(ci, {})[j] = ptbl
            clients[j]['objs'] = cj_objs
            procs[j] = k.create_process('client%d-' % j, lambda j=j, cdata=cdata: client_main(j, cdata))
        threads = []
        for ti, prog in enumerate(c['threads']):
            if ti == 0:
                continue
            t2, s2 = {}, {}
            for s in sorted(table):
                take(t2, s2, s, table[s], soid[s])
            tables[ci].append((t2, s2))
            threads.append(k.spawn_thread(lambda ti=ti, prog=prog, t2=t2, s2=s2: run_prog(ci, ti, prog, t2, s2, m),
                                          't%d' % ti))
        if c['threads']:
            run_prog(ci, 0, c['threads'][0], table, soid, m)
        for t in threads:
            k.join_actor(t)
        release_pins(ci, wait=True)
        done[ci] = True
        k.record('client-done', ci)
        a = k.enter('barrier')
        k.wait_until(a, lambda: flags['go'], None, 'barrier')
        # what a normal interpreter exit does (util._exit_function runs the proxies' finalizers)
        for tbl, _s in tables[ci]:
            for s in sorted(tbl):
                drop(tbl, s)
        k.exit_now(0)

    def bad_main(bi):
        b = bads[bi]
        bkey = bytes.fromhex(b['key'])
        kind = b['kind']
        req = (None, 'create', ('list', [b['v']]), {})
        for _ in range(b.get('delay', 0)):
            k.yield_('tick')
        res = None
        try:
            if kind == 'connect':
                M.SyncManager(address=ADDR, authkey=bkey).connect()
                res = 'accepted'
            elif kind == 'client':
                conn = C.Client(ADDR, authkey=bkey)
                res = 'accepted'
                M.dispatch(conn, *req)
            elif kind == 'proxy':
                a = k.enter('wait-token')
                k.wait_until(a, lambda: 0 in tokens, None, 'wait-token')
                tok = M.Token(*tokens[0])
                proxytype = M.SyncManager._registry[tok.typeid][3]
                p = proxytype(tok, 'pickle', authkey=bkey)
                res = 'accepted'
                p._close.cancel()
            elif kind == 'raw_noauth':
                conn = C.SocketClient(ADDR)
                replies = []
                try:
                    conn.send(req)
                    while len(replies) < 6:
                        replies.append(conn.recv_bytes())
                except (EOFError, OSError):
                    pass
                res = 'refused' if C.FAILURE in replies else 'no-failure-verdict'
                for r in replies:
                    try:
                        if pickle.loads(r)[0] == '#RETURN':
                            res = 'served'
                    except Exception:       # noqa
                        pass
            else:   # raw_ignore_verdict
                conn = C.SocketClient(ADDR)
                res = 'no-failure-verdict'
                try:
                    msg = conn.recv_bytes(256)
                    conn.send_bytes(hmac.new(bkey, msg[len(C.CHALLENGE):], 'md5').digest())
                    if conn.recv_bytes(256) == C.FAILURE:
                        res = 'refused'
                    conn.send_bytes(C.CHALLENGE + b'h' * 20)
                    conn.recv_bytes()
                    conn.send_bytes(C.WELCOME)
                    conn.send(req)
                    if conn.recv()[0] == '#RETURN':
                        res = 'served'
                except (EOFError, OSError, pickle.UnpicklingError):
                    pass
        except AuthenticationError:
            res = 'AuthenticationError'
        except Exception as exc:        # noqa
            res = type(exc).__name__
        bad_res[bi] = res
        k.record('bad-client', bi, kind, res)
        k.exit_now(0)

    def snapshot():
        """All client programs have finished and every drop has been answered: no server actor is
        inside create/incref/decref.  Compare the server's tables with the live proxies."""
        srv = flags['srv']
        snap = {'final': {}}
        expect = {}
        for oid in range(nobj):
            n = live_count(oid)
            if n:
                if idents[oid] in expect:
                    bad('C20.c', 'ident-shared-by-live-objects', 'objects %d and %d' % (expect[idents[oid]][0], oid))
                expect[idents[oid]] = (oid, n)
        table_ids = set(srv.id_to_obj) - {'0'}
        for ident, (oid, n) in sorted(expect.items(), key=lambda kv: kv[1][0]):
            t = objects[oid]['t']
            if ident not in srv.id_to_obj:
                bad('C20.c', 'live-object-disposed:%s' % t,
                    'object %d has %d live proxies but is gone from the server' % (oid, n))
                continue
            rc = srv.id_to_refcount.get(ident)
            if rc != n:
                bad('C20.c', 'refcount-%s' % ('high' if rc is None or rc > n else 'low'),
                    'object %d (%s): server refcount %r, live proxies %d' % (oid, t, rc, n))
            snap['final'][oid] = referent_key(t, srv.id_to_obj[ident][0])
        extra = table_ids - set(expect)
        if extra:
            owners = sorted(ident_seen.get(i, -1) for i in extra)
            bad('C20.c', 'object-outlives-proxies', 'server still holds objects %r (no live proxy); refcounts %r'
                % (owners, sorted(srv.id_to_refcount.get(i) for i in extra)))
        k.record('snapshot', sorted(n for _o, n in expect.values()), len(table_ids))
        flags['snap'] = snap

    def user():
        procs['srv'] = k.create_process('server-', server_main)
        a = k.enter('wait-server')
        k.wait_until(a, lambda: flags['srv'] is not None, None, 'wait-server')
        procs[0] = k.create_process('client0-', lambda: client_main(0))
        for bi in range(len(bads)):
            procs['bad%d' % bi] = k.create_process('bad%d-' % bi, lambda bi=bi: bad_main(bi))
        a = k.enter('wait-clients')
        k.wait_until(a, lambda: all(done.get(ci) for ci in range(len(clients))) and len(bad_res) == len(bads),
                     None, 'wait-clients')
        snapshot()
        flags['go'] = True
        a = k.enter('wait-exit')
        k.wait_until(a, lambda: all(procs[ci].dead for ci in range(len(clients))), None, 'wait-exit')
        if any(live_count(oid) for oid in range(nobj)):
            k.probe('drop_needed_gc')
            gc.collect()
        srv = flags['srv']
        left = set(srv.id_to_obj) - {'0'}
        if left or srv.id_to_refcount:
            bad('C20.c', 'not-disposed-after-last-drop',
                'after every proxy was dropped the server holds %d object(s), refcounts %r; proxies still alive: %r'
                % (len(left), sorted(srv.id_to_refcount.values()), [live_count(o) for o in range(nobj)]))
        else:
            k.probe('dropped_to_zero')
        conn = C.Client(ADDR, authkey=key)
        M.dispatch(conn, None, 'shutdown')
        conn.close()

    def state_fn():
        srv = flags['srv']
        rc = tuple(sorted(srv.id_to_refcount.values())) if srv is not None else ()
        sp = procs.get('srv')
        return (rc, len(sp.fds) if sp is not None else 0, tuple(sorted(pcs.items())))
    k.state_fn = state_fn

    k.spawn_actor(k.root, user, 'P0.user', main=True)
    end = k.run()
    U._finalizer_registry.clear()

    # ------------------------------------------------------------------ oracles over the history
    for a in k.actors:
        if a.exc is not None:
            viol.append(V('C20.x', 'actor-exception:%s:%s' % (_role(a), type(a.exc).__name__),
                          '%s: %r' % (a.name, a.exc)))
    if end != 'quiescent':
        stuck = sorted('%s@%s' % (_role(a), a.label.split(':')[0])
                       for a in k.actors if a.state != 'done' and not a.name.startswith('server'))
        viol.append(V('C20.live', 'no-quiescence:%s:%s' % (end, ','.join(stuck[:3])), repr(k.blocked_report())[:900]))
    # (d) wrong key
    for bi, b in enumerate(bads):
        res = bad_res.get(bi)
        if b['kind'] in ('connect', 'client', 'proxy'):
            if res == 'AuthenticationError':
                k.probe('wrong_key_refused')
            elif res is not None:
                viol.append(V('C20.d', 'wrong-key-not-refused:%s:%s' % (b['kind'], res),
                              'client with a wrong key got %r instead of AuthenticationError' % (res,)))
        else:
            if res == 'refused':
                k.probe('hostile_raw_refused')
            elif res is not None:
                viol.append(V('C20.d', 'hostile-peer:%s:%s' % (b['kind'], res), 'raw peer outcome %r' % (res,)))
    connects = [e[1] for e in k.log if e[2] == 'connect']
    accepts = [e[3] for e in k.log if e[2] == 'accept']
    owner = dict(zip(accepts, connects))
    for e in k.log:
        if e[2] == 'srv-call' and owner.get(e[3], '').startswith('bad'):
            viol.append(V('C20.d', 'request-served-for-wrong-key:%s' % e[4],
                          'server ran %s for a connection opened by %s' % (e[4], owner[e[3]])))
            break
    for name, exc in harness['srv_errors'][:2]:
        if name in ('incref', 'decref', 'create'):
            viol.append(V('C20.c', 'server-%s-failed:%s' % (name, exc), 'Server.%s raised %s' % (name, exc)))
    # (a)(b)(c) per object
    snap = flags['snap']
    shared_concurrent = False
    for oid, ops in enumerate(hist):
        if not ops:
            continue
        t = objects[oid]['t']
        if len(set(tuple(o['who'].split('.')[:2]) for o in ops)) > 1:
            shared_concurrent = True
        for o in ops:
            if o['out'] is None:
                continue
            if o['kind'] == 'nonexp':
                if o['out'][0] == 'exc':
                    k.probe('nonexposed_refused')
                else:
                    viol.append(V('C20.a', 'nonexposed-method-served:%s:%s' % (t, o['method']),
                                  'proxy._callmethod(%r) returned %r' % (o['method'], o['out'][1])))
            elif o['out'] == ('exc', 'RemoteError'):
                tb = [x[2] for x in remote_tb if x[0] == oid and x[1] == o['method']]
                notfound = any('KeyError' in x for x in tb)
                viol.append(V('C20.c' if notfound else 'C20.b',
                              ('live-proxy-object-not-found:%s' % t) if notfound else
                              ('remote-error:%s:%s' % (t, o['method'])),
                              'op %s %s%r on object %d -> RemoteError %s' % (o['who'], o['method'], o['args'], oid,
                                                                              tb[:1])))
            elif o['out'][0] == 'exc':
                k.probe('remote_exception_reraised')
        model0 = make_model(objects[oid])
        final = snap['final'].get(oid) if snap else None
        if len(ops) > 20:
            k.probe('history_too_long_skipped')
            continue
        if not linearizable(model0, ops, final):
            why = 'not-linearizable'
            if linearizable(model0, ops, final, loose_exc=True):
                why = 'exception-type-changed'
            elif t == 'rlock' and linearizable(model0, ops, final, me_key='me_epoch'):
                # explained if the lock's owner is the *connection* (server thread), not the client thread
                why = 'rlock-owner-lost-on-reconnect'
            elif final is not None and linearizable(model0, ops, None):
                why = 'final-state-unexplained'
            clause = 'C20.b' if why == 'exception-type-changed' else 'C20.a'
            methods = sorted(set(o['method'] for o in ops))
            viol.append(V(clause, '%s:%s' % (why, t),
                          'object %d (%s, init %r): history %r final %r (methods %s)'
                          % (oid, t, objects[oid].get('init'),
                             [(o['who'], o['b'], o['e'], o['method'], o['args'], o['out']) for o in ops], final,
                             ','.join(methods))))
    if shared_concurrent:
        k.probe('shared_object_concurrent_ops')
    nontrivial = k.n_decisions > 0 and (shared_concurrent or stats['lifecycle'] > 0 or bool(bads))
    return finish(k, case, viol, nontrivial)
