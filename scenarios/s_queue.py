"""S-QUEUE: billiard.queues Queue (with its feeder thread), JoinableQueue and SimpleQueue
running unmodified on the simulated kernel (pipes with tiny buffers, split and interrupted
I/O, stalled actors), with 1-3 producers and 1-3 consumers that are threads of the creating
process or separate simulated processes working on copies made through the real
__getstate__/__setstate__/_after_fork path.  Serves C16.

Workload shape (all drawn in generate(); execute() draws nothing)
-----------------------------------------------------------------
Every producer has a list of put operations (blocking / put_nowait / timed), every consumer a
list of get operations (blocking / get_nowait / timed).  The workload is balanced: the number
of get operations equals the number of items.  A put that raises Full and a get that raises
Empty are checked against clause (d) and then repeated as an untimed blocking call for the
same item / the same slot, so every item is accepted exactly once and every consumer takes
exactly the number of items it was given.  A balanced run therefore has to end quiescent.
A producer process flushes before it exits (close(); join_thread()) because the simulation
does not run multiprocessing's exit finalizers; the creating process flushes at the very end
(close(); _thread.join()).

Oracle clauses
--------------
C16.a  conservation: at the end every accepted item was returned by exactly one get, nothing
       unknown, nothing twice, payload bytes identical.
C16.b  per-producer order.  The dequeue instant of an item is the step number of the LAST
       read() on the queue's reader descriptor made by the consuming actor before its get()
       returned (taken from the kernel log; one step = one kernel call of one actor, so the
       stamps are distinct).  Why this is sound: a message is read completely while the reader
       lock is held, so the last read of consumer A on message m precedes every read of the
       consumer that takes the next message; the pipe is FIFO, so the stamps order the gets
       exactly as the messages were ordered in the pipe.  Items of one producer enter the pipe
       in put order (its puts are sequential, the buffer is a FIFO drained by one feeder per
       process, SimpleQueue writes directly), hence for every producer the sequence numbers
       sorted by stamp must be increasing - over ALL consumers, not only per consumer.  (The
       step at which get() returned would not do: two consumers race after the lock is
       released.)
C16.c  capacity (bounded queues): after every step  puts_returned - gets_begun <= maxsize,
       where gets_begun counts gets that returned an item or are still in progress.  This is a
       lower bound of the number of items waiting, built from harness counters only, so it is
       independent of the semaphore; additionally the kernel value of Queue._sem stays within
       0..maxsize and starts at maxsize (maxsize - value = occupied places).
C16.d  Full from put_nowait / a timed put only if the capacity semaphore was 0 at some instant
       of the call; from a timed put only at now >= start + timeout - 1e-9; never on an
       unbounded queue, never from an untimed put.  Empty from a timed get only at
       now >= start + timeout - 0.001 (poll() truncates to whole milliseconds; 1e-6 slack for
       float rounding); never from an untimed get.  get_nowait's Empty is unconstrained (the
       item may still be in a feeder's buffer).
C16.e  JoinableQueue: when join() returns there was an instant inside the call at which the
       unfinished-task semaphore was 0 (checked at the call and after every step); a
       task_done() that follows a successful get never raises ValueError; one task_done() too
       many (issued when everything is finished) raises ValueError.  That join() does return
       is part of C16.f.
C16.f  liveness: the balanced run ends quiescent: nobody is blocked forever, the step and
       time caps are not reached.
C16.x  no actor dies of an unexpected exception.

Timing is only ever checked in the "not before" direction, so stalls are safe to combine with it.
"""
import pickle
from queue import Empty, Full

from .common import SimContext, dump_for_child, new_kernel, finish, V, POLICIES, seams
from simos import seams_queue

RUNS_PER_FORK = 10
COMPONENTS = {
    'real': ['billiard/queues.py: Queue (put/get/put_nowait/get_nowait/close/join_thread, feeder thread _feed, '
             '_start_thread, __getstate__/__setstate__/_after_fork), JoinableQueue (put/task_done/join), '
             'SimpleQueue (put/get)',
             'billiard/connection.py: Pipe, Connection framing, poll/wait',
             'billiard/synchronize.py: Lock, BoundedSemaphore, Semaphore, RLock, Condition',
             'billiard/reduction.py ForkingPickler; multiprocessing.util.Finalize (close / join_thread)'],
    'stub': ['_multiprocessing.SemLock, os.read/write/close/pipe, select.poll, threading.Thread/Lock/Condition, '
             'time.monotonic, os.getpid, processes -> simulated kernel (pipe capacity 64B..64KiB, short I/O, '
             'EINTR, stalls)'],
}
ASSUMPTIONS = [
    'a pipe never loses, duplicates, reorders or corrupts bytes; the POSIX semaphore behaves like the simulated one',
    'every item is picklable (an unpicklable item kills the feeder thread: outside the property)',
    'a producer process flushes its feeder (close(); join_thread()) before it exits: the simulation does not run '
    'the exit finalizers that do this in a real interpreter; no process is killed while it holds a queue lock',
    'SimpleQueue.empty() is not called (raises AttributeError on this tree; outside the property)',
    'pre-emption granularity = one kernel call (semaphore operation, read, write, poll, thread lock operation)',
    'timing is checked only as "not before the deadline"; EINTR is injected on read/write, not on poll',
]
RULE = ('case = (queue kind Queue|JoinableQueue|SimpleQueue, maxsize 0..4, pipe capacity 64..65536, short I/O '
        'on/off, EINTR rate, 1-3 producers and 1-3 consumers each a thread of the creator or a process with a '
        'pickled copy, per-item size 1 B..3x pipe capacity, per-operation mode blocking|nowait|timed with '
        'timeout and preceding sleep, task_done delays, 0-2 extra joiners, start order, 0-2 stalls, scheduling '
        'policy); one run = one seeded schedule; distinct = distinct (workload hash, schedule fingerprint); '
        'non-trivial = at least one item crossed the queue AND at least two actors interleaved at a decision')
PROBES = ['feeder_blocked_full_pipe', 'consumer_timed_out_mid_message', 'full_raised', 'empty_raised',
          'join_raced_task_done', 'item_larger_than_pipe', 'two_consumers_contended_rlock',
          'write_blocked_full_pipe', 'timed_get_empty', 'timed_put_full', 'join_waited', 'proc_copy_used', 'proc_with_several_threads',
          'line_preempt']

KINDS = ['Queue', 'Queue', 'JoinableQueue', 'JoinableQueue', 'SimpleQueue']
CAPS = [64, 512, 4096, 65536]
_OVERHEAD = 30          # pickled (int, int, bytes) + 4-byte frame header, roughly


def _payload(pi, seq, n):
    head = b'%d:%d:' % (pi, seq)
    base = bytes((pi * 53 + seq * 17 + j) & 0xff for j in range(256))
    return (head + base * (n // 256 + 1))[:n]


# ---------------------------------------------------------------------- generation
def _size(rng, cap):
    r = rng.random()
    if r < 0.45:
        return rng.choice([1, 1, 2, 7, 20, 50])
    if r < 0.75:
        return max(1, rng.choice([cap - 40, cap - _OVERHEAD, cap - 4, cap, cap + 1, 2 * cap, 3 * cap]))
    return rng.randint(1, 3 * cap)


def _split(rng, total, parts):
    out = [0] * parts
    for _ in range(total):
        out[rng.randrange(parts)] += 1
    return out


def generate(rng, tier, prop='C16'):
    kind = rng.choice(KINDS)
    cap = rng.choice(CAPS)
    simple = kind == 'SimpleQueue'
    maxsize = 0 if simple else rng.choice([0, 1, 1, 2, 2, 3, 4])
    nprod, ncons = rng.randint(1, 3), rng.randint(1, 3)
    total = rng.randint(1, 16 if tier == 'thorough' else 10)
    wheres = rng.choice([['thread'], ['proc'], ['thread', 'proc'], ['thread', 'proc'],
                         ['thread', 'proc', 'shared'], ['shared', 'proc'], ['shared']])
    pre = [0, 0, 0, 0, 0.05, 0.3, 1.0]
    producers = []
    for n in _split(rng, total, nprod):
        ops = []
        for _ in range(n):
            op = {'size': _size(rng, cap), 'mode': 'block', 'pre': rng.choice(pre)}
            if not simple:
                r = rng.random()
                if r < 0.25:
                    op['mode'] = 'nowait'
                elif r < 0.45:
                    op['mode'] = 'timed'
                    op['timeout'] = rng.choice([0.0, 0.01, 0.1, 0.5, 2.0])
            ops.append(op)
        producers.append({'where': rng.choice(wheres), 'ops': ops,
                          'join_after': kind == 'JoinableQueue' and rng.random() < 0.3})
    consumers = []
    for n in _split(rng, total, ncons):
        ops = []
        for _ in range(n):
            op = {'mode': 'block', 'pre': rng.choice(pre + [2.0])}
            if not simple:
                r = rng.random()
                if r < 0.2:
                    op['mode'] = 'nowait'
                elif r < 0.5:
                    op['mode'] = 'timed'
                    op['timeout'] = rng.choice([0.0, 0, 0.05, 0.3, 1.0, 3.0])
            if kind == 'JoinableQueue':
                op['td'] = rng.choice([0, 0, 1, 3, 0.2])       # int = ticks, float = seconds before task_done
            ops.append(op)
        consumers.append({'where': rng.choice(wheres), 'ops': ops})
    joiners = []
    if kind == 'JoinableQueue':
        for _ in range(rng.choice([0, 1, 1, 2])):
            joiners.append({'where': rng.choice(wheres), 'delay': rng.choice([0, 0, 0.05, 0.3, 1.0, 2.5])})
    start = [['p', i] for i in range(nprod)] + [['c', i] for i in range(ncons)] + \
            [['j', i] for i in range(len(joiners))]
    rng.shuffle(start)
    stalls = []
    if rng.random() < 0.35:
        for _ in range(rng.randint(1, 2)):
            stalls.append([rng.randint(5, 400), rng.randrange(16), rng.choice([0.02, 0.5, 5.0])])
    return {
        'kind': kind, 'maxsize': maxsize, 'pipe_cap': cap,
        'short_io': rng.random() < 0.6, 'eintr': rng.choice([0.0, 0.0, 0.05, 0.05, 0.2]),
        'policy': rng.choice(POLICIES),
        'producers': producers, 'consumers': consumers, 'joiners': joiners, 'start': start,
        'final_join': kind == 'JoinableQueue' and rng.random() < 0.5,
        'extra_task_done': kind == 'JoinableQueue' and rng.random() < 0.5,
        'stalls': sorted(stalls),
        # forced pre-emptions at traced-line counts inside queues.py (DESIGN 3.5 item 2)
        'line_preempt': sorted(rng.randint(1, 800) for _ in range(rng.randint(1, 3))) if rng.random() < 0.2 else [],
        'func_preempt': rng.choice([0, 0, 0, 0.3, 0.6]),
    }


def _renumber(case):
    """After an actor was removed from the end of its list: drop its entry from the start order."""
    case['start'] = [s for s in case['start']
                     if (s[0] == 'p' and s[1] < len(case['producers'])) or
                     (s[0] == 'c' and s[1] < len(case['consumers'])) or
                     (s[0] == 'j' and s[1] < len(case['joiners']))]
    return case


def _copy(case):
    c = dict(case)
    c['producers'] = [dict(p, ops=[dict(o) for o in p['ops']]) for p in case['producers']]
    c['consumers'] = [dict(p, ops=[dict(o) for o in p['ops']]) for p in case['consumers']]
    c['joiners'] = [dict(j) for j in case['joiners']]
    c['start'] = [list(s) for s in case['start']]
    c['stalls'] = [list(s) for s in case.get('stalls', [])]
    return c


def shrink(case):
    # drop one item: one put operation and one get operation (keeps the workload balanced)
    for pi, p in enumerate(case['producers']):
        for oi in range(len(p['ops'])):
            for ci, cn in enumerate(case['consumers']):
                if cn['ops']:
                    c = _copy(case)
                    del c['producers'][pi]['ops'][oi]
                    del c['consumers'][ci]['ops'][-1]
                    yield c
    # drop trailing actors without work, joiners, faults
    if len(case['producers']) > 1 and not case['producers'][-1]['ops']:
        c = _copy(case)
        c['producers'].pop()
        yield _renumber(c)
    if len(case['consumers']) > 1 and not case['consumers'][-1]['ops']:
        c = _copy(case)
        c['consumers'].pop()
        yield _renumber(c)
    if case['joiners']:
        c = _copy(case)
        c['joiners'].pop()
        yield _renumber(c)
    for key, val in (('stalls', []), ('line_preempt', []), ('func_preempt', 0), ('short_io', False), ('eintr', 0.0), ('final_join', False),
                     ('extra_task_done', False), ('policy', 'random')):
        if case.get(key) != val:
            c = _copy(case)
            c[key] = val
            yield c
    for grp in ('producers', 'consumers', 'joiners'):
        for i, p in enumerate(case[grp]):
            if p['where'] != 'thread':
                c = _copy(case)
                c[grp][i]['where'] = 'thread'
                yield c
    for pi, p in enumerate(case['producers']):
        if p.get('join_after'):
            c = _copy(case)
            c['producers'][pi]['join_after'] = False
            yield c
    # simplify single operations
    for grp in ('producers', 'consumers'):
        for i, p in enumerate(case[grp]):
            for oi, op in enumerate(p['ops']):
                if op['mode'] != 'block':
                    c = _copy(case)
                    c[grp][i]['ops'][oi]['mode'] = 'block'
                    c[grp][i]['ops'][oi].pop('timeout', None)
                    yield c
                if op.get('pre'):
                    c = _copy(case)
                    c[grp][i]['ops'][oi]['pre'] = 0
                    yield c
                if op.get('td'):
                    c = _copy(case)
                    c[grp][i]['ops'][oi]['td'] = 0
                    yield c
                if grp == 'producers' and op['size'] > 1:
                    for ns in (1, op['size'] // 2):
                        if ns < op['size']:
                            c = _copy(case)
                            c[grp][i]['ops'][oi]['size'] = ns
                            yield c


# ---------------------------------------------------------------------- execution
class _Crash(Exception):
    """A thread of a multi-threaded child died; the exception itself is reported through its actor."""


class _Window:
    """An operation in progress that waits to see a condition hold at some instant (identity-compared)."""
    __slots__ = ('seen',)

    def __init__(self, seen):
        self.seen = bool(seen)


def execute(case, seed, choices=None):
    cap = case['pipe_cap']
    k = new_kernel(seed, {'policy': case.get('policy', 'random'), 'horizon': 600.0, 'max_steps': 60000,
                          'pipe_cap': cap, 'short_io': case['short_io'], 'eintr': case['eintr'],
                          'log_cap': 600000}, choices)
    seams.install_sync()
    seams.install_conn()
    seams_queue.install_queue()
    ctx = SimContext()
    kind = case['kind']
    simple = kind == 'SimpleQueue'
    joinable = kind == 'JoinableQueue'
    maxsize = 0 if simple else case.get('maxsize', 0)
    bounded = maxsize > 0
    viol = []
    seen_sigs = set()
    st = {
        'q': None, 'queues': [], 'ksem': None, 'kunf': None, 'kwlock': None, 'rlock_label': None,
        'rfd': None, 'wlabel': None, 'pipe': None,
        'p_ret': 0, 'g_beg': 0,
        'put': {},            # (pi, seq) -> payload accepted
        'got': [],            # (ci, oi, item)
        'full_windows': [], 'join_windows': [], 'td_active': 0,
        'crashes': [], 'once': set(),
    }

    def bad(clause, sig, detail):
        key = (clause, sig)
        if key in seen_sigs:
            return
        seen_sigs.add(key)
        viol.append(V(clause, sig, detail))

    def once(name):
        if name not in st['once']:
            st['once'].add(name)
            k.probe(name)

    # ------------------------------------------------------------------ step invariants
    def hook(kern):
        ks = st['ksem']
        if ks is not None:
            v = ks.value
            if v == 0:
                for w in st['full_windows']:
                    w.seen = True
            if bounded:
                if v < 0 or v > maxsize:
                    bad('C16.c', 'sem-out-of-range', 'capacity semaphore value %d, maxsize %d at step %d'
                        % (v, maxsize, kern.steps))
                if st['p_ret'] - st['g_beg'] > maxsize:
                    bad('C16.c', 'more-than-maxsize-waiting',
                        'step %d: %d puts returned, %d gets begun (returned an item or in progress), maxsize %d'
                        % (kern.steps, st['p_ret'], st['g_beg'], maxsize))
        ku = st['kunf']
        if ku is not None and ku.value == 0:
            for w in st['join_windows']:
                w.seen = True
        rl = st['rlock_label']
        if rl is not None:
            wl = st['wlabel']
            for a in kern.actors:
                if a.state == 'blocked':
                    if a.label == rl:
                        once('two_consumers_contended_rlock')
                    elif a.label == wl and a.kind == 'QueueFeederThread':
                        once('feeder_blocked_full_pipe')
    k.step_hook = hook

    def state_fn():
        q = st['q']
        if q is None:
            return None
        ks, ku, p = st['ksem'], st['kunf'], st['pipe']
        occ = min(ks.maxvalue - ks.value, 6) if ks is not None else -1
        fill = len(p.buf)
        fb = 0 if fill == 0 else 1 if fill * 2 < p.cap else 2 if fill < p.cap else 3
        nbuf = min(len(q._buffer), 4) if not simple else -1
        return (nbuf, occ, fb, min(ku.value, 6) if ku is not None else -1)
    k.state_fn = state_fn

    stalls = [list(s) for s in case.get('stalls', [])]

    def fault_hook(kern):
        while stalls and kern.steps >= stalls[0][0]:
            _s, pick, dt = stalls.pop(0)
            live = [a for a in kern.actors if a.state != 'done' and a.kind != 'user']
            if live:
                kern.stall(live[pick % len(live)], dt)
    if stalls:
        k.fault_hook = fault_hook
    if case.get('func_preempt'):
        # a thread can lose the processor between any two lines of put() / the lazy start of the feeder thread
        k.enable_func_preemption(('billiard/queues.py',), ('put', '_start_thread', '_after_fork'),
                                 case['func_preempt'], 0.6)
    elif case.get('line_preempt'):
        k.enable_line_preemption(('billiard/queues.py',), list(case['line_preempt']))

    # ------------------------------------------------------------------ operations
    def accepted(pi, seq, item):
        st['p_ret'] += 1
        st['put'][(pi, seq)] = item[2]
        k.record('pE', pi, seq, 'ok')

    def do_put(q, pi, seq, op):
        item = (pi, seq, _payload(pi, seq, op['size']))
        if op['size'] + _OVERHEAD > cap:
            k.probe('item_larger_than_pipe')
        mode = 'block' if simple else op['mode']
        k.record('pB', pi, seq, mode, op['size'])
        if mode == 'block':
            try:
                q.put(item)
            except Full:
                bad('C16.d', 'full-from-untimed-put', 'put() of item (%d,%d) raised Full' % (pi, seq))
                raise
            accepted(pi, seq, item)
            return
        ks = st['ksem']
        w = _Window(ks.value == 0)
        st['full_windows'].append(w)
        t0 = k.now
        tmo = op.get('timeout')
        try:
            try:
                if mode == 'nowait':
                    q.put_nowait(item)
                else:
                    q.put(item, True, tmo)
            finally:
                st['full_windows'].remove(w)
        except Full:
            now = k.now
            k.probe('full_raised')
            k.record('pE', pi, seq, 'Full')
            if not bounded:
                bad('C16.d', 'full-on-unbounded-queue', '%s put of (%d,%d) raised Full, maxsize 0' % (mode, pi, seq))
            elif not w.seen:
                bad('C16.d', 'full-with-free-place:%s' % mode,
                    '%s put of (%d,%d) raised Full but the capacity semaphore was never 0 during the call'
                    % (mode, pi, seq))
            if mode == 'timed':
                k.probe('timed_put_full')
                if now < t0 + tmo - 1e-9:
                    bad('C16.d', 'timed-put-full-early', 'put(timeout=%r) raised Full after %.6f s'
                        % (tmo, now - t0))
            q.put(item)                 # same item again, untimed: the workload stays balanced
        accepted(pi, seq, item)

    def do_get(q, ci, oi, op):
        mode = 'block' if simple else op['mode']
        k.record('gB', ci, oi, mode)
        item = None
        if mode != 'block':
            st['g_beg'] += 1
            t0 = k.now
            tmo = op.get('timeout')
            try:
                item = q.get_nowait() if mode == 'nowait' else q.get(True, tmo)
                if mode == 'timed' and tmo == 0 and k.now - t0 > 0.05 and not case.get('stalls'):
                    # a zero timeout is "look once": it may find an item, it never waits for one to arrive
                    bad('C16.d', 'zero-timeout-get-waited', 'get(True, %r) returned an item after %.3f s'
                        % (tmo, k.now - t0))
            except Empty:
                now = k.now
                st['g_beg'] -= 1
                k.probe('empty_raised')
                k.record('gX', ci, oi, 'Empty')
                if mode == 'timed':
                    k.probe('timed_get_empty')
                    if st['kwlock'].value == 0:
                        k.probe('consumer_timed_out_mid_message')
                    if now < t0 + tmo - 0.001 - 1e-6:
                        bad('C16.d', 'timed-get-empty-early', 'get(timeout=%r) raised Empty after %.6f s'
                            % (tmo, now - t0))
                item = None
        if item is None:
            st['g_beg'] += 1
            try:
                item = q.get()
            except Empty:
                bad('C16.d', 'empty-from-untimed-get', 'get() raised Empty (consumer %d op %d)' % (ci, oi))
                raise
        # no kernel call since get() returned: the marker follows the consumer's last read directly
        ok = (isinstance(item, tuple) and len(item) == 3 and isinstance(item[0], int) and
              isinstance(item[1], int) and isinstance(item[2], bytes))
        k.record('gE', ci, oi, item[0] if ok else -1, item[1] if ok else -1)
        st['got'].append((ci, oi, item if ok else ('?', repr(item)[:60], b'')))
        return item

    def do_task_done(q):
        if st['join_windows']:
            k.probe('join_raced_task_done')
        st['td_active'] += 1
        try:
            q.task_done()
        except ValueError:
            bad('C16.e', 'task_done-refused-with-unfinished-item',
                'task_done() after a successful get raised ValueError')
        finally:
            st['td_active'] -= 1

    def do_join(q, who):
        w = _Window(st['kunf'].value == 0)
        if not w.seen:
            k.probe('join_waited')
        st['join_windows'].append(w)
        if st['td_active']:
            k.probe('join_raced_task_done')
        k.record('jB', who)
        try:
            q.join()
        finally:
            st['join_windows'].remove(w)
        k.record('jE', who)
        if not w.seen:
            bad('C16.e', 'join-returned-unfinished-never-zero',
                'join() by %s returned although the unfinished-task count was never 0 during the call' % (who,))

    # ------------------------------------------------------------------ roles
    def producer(pi, q):
        spec = case['producers'][pi]
        for seq, op in enumerate(spec['ops']):
            if op.get('pre'):
                k.sleep(op['pre'])
            do_put(q, pi, seq, op)
        if spec.get('join_after') and joinable:
            do_join(q, 'p%d' % pi)

    def consumer(ci, q):
        spec = case['consumers'][ci]
        for oi, op in enumerate(spec['ops']):
            if op.get('pre'):
                k.sleep(op['pre'])
            do_get(q, ci, oi, op)
            if joinable:
                td = op.get('td', 0)
                if isinstance(td, float):
                    k.sleep(td)
                else:
                    for _ in range(td):
                        k.yield_('tick')
                do_task_done(q)

    def joiner(ji, q):
        spec = case['joiners'][ji]
        if spec.get('delay'):
            k.sleep(spec['delay'])
        do_join(q, 'j%d' % ji)

    roles = {'p': ('producer', producer, case['producers']), 'c': ('consumer', consumer, case['consumers']),
             'j': ('joiner', joiner, case['joiners'])}

    def flush_and_leave(q, producing):
        """What a real interpreter does at exit for a queue it did not create (exit finalizers)."""
        if not simple and producing:
            q.close()
            q.join_thread()

    def user():
        if simple:
            q = ctx.SimpleQueue()
        elif joinable:
            q = ctx.JoinableQueue(maxsize)
        else:
            q = ctx.Queue(maxsize)
        st['queues'].append(q)
        me = k.cur()
        st['rfd'] = q._reader.fileno()
        st['pipe'] = me.proc.fds[st['rfd']].rpipe
        st['wlabel'] = 'write:%d' % q._writer.fileno()
        st['kwlock'] = q._wlock._semlock._s
        if not simple:
            ks = q._sem._semlock._s
            st['ksem'] = ks
            if bounded and (ks.value != maxsize or ks.maxvalue != maxsize):
                bad('C16.c', 'sem-initial', 'Queue(%d): capacity semaphore starts at %d (max %d)'
                    % (maxsize, ks.value, ks.maxvalue))
        if joinable:
            st['kunf'] = q._unfinished_tasks._semlock._s
        st['rlock_label'] = 'sem:%d' % q._rlock._semlock._s.id
        st['q'] = q
        data, fds = dump_for_child(q)
        threads, procs, shared = [], [], []

        def proc_main(members):
            """Main function of a child process hosting the given roles (one: in the main thread; several:
            one thread each, all sharing the child's single copy of the queue)."""
            def main():
                code = 0
                try:
                    q2 = pickle.loads(data)
                    st['queues'].append(q2)
                    k.probe('proc_copy_used')
                    if len(members) == 1:
                        rname, fn, idx = members[0]
                        fn(idx, q2)
                    else:
                        k.probe('proc_with_several_threads')
                        acts = [k.spawn_thread(lambda fn=fn, idx=idx: fn(idx, q2), rname)
                                for rname, fn, idx in members]
                        for t in acts:
                            k.join_actor(t)
                        if any(t.exc is not None for t in acts):
                            raise _Crash('a thread of this process died')
                    flush_and_leave(q2, any(m[0] == 'producer' for m in members))
                except Exception as exc:       # noqa
                    if not isinstance(exc, _Crash):
                        st['crashes'].append((members[0][0], type(exc).__name__, repr(exc)[:200]))
                    code = 1
                k.exit_now(code)
            return main

        for tag, idx in case['start']:
            rname, fn, specs = roles[tag]
            if idx >= len(specs):
                continue
            where = specs[idx]['where']
            if where == 'thread':
                threads.append(k.spawn_thread(lambda fn=fn, idx=idx: fn(idx, q), rname))
            elif where == 'shared':
                shared.append((rname, fn, idx))
            else:
                procs.append(k.create_process(rname + '-', proc_main([(rname, fn, idx)]), inherit_fds=fds))
        if shared:
            procs.append(k.create_process('group-' if len(shared) > 1 else shared[0][0] + '-',
                                          proc_main(shared), inherit_fds=fds))
        for t in threads:
            k.join_actor(t)
        if procs:
            a = k.enter('wait-children')
            k.wait_until(a, lambda: all(p.dead for p in procs), None, 'wait-children')
        if st['crashes'] or any(a.exc is not None for a in k.actors):
            return          # the exception is the finding; do not pile consequences on top
        if joinable:
            if case.get('final_join'):
                do_join(q, 'user')
            if case.get('extra_task_done'):
                try:
                    q.task_done()
                except ValueError:
                    pass
                else:
                    bad('C16.e', 'extra-task_done-accepted',
                        'task_done() with nothing unfinished did not raise ValueError')
        if not simple:
            # everything was taken and every get has returned: the optional observers must agree
            n, e, f = q.qsize(), q.empty(), q.full()
            if n != 0 or not e or (f and bounded):
                bad('C16.c', 'observers-wrong-at-end', 'all items taken: qsize()=%r empty()=%r full()=%r' % (n, e, f))
            q.close()
            if q._thread is not None:
                q._thread.join()

    k.spawn_actor(k.root, user, 'P0.user', main=True)
    end = k.run()

    # ------------------------------------------------------------------ evaluation
    try:
        _evaluate(k, case, st, end, bad)
    finally:
        # finalizers of un-closed queues would make kernel calls from outside the simulation
        for q in st['queues']:
            for attr in ('_close', '_jointhread'):
                f = getattr(q, attr, None)
                if f is not None and hasattr(f, 'cancel'):
                    f.cancel()
    nontrivial = k.n_decisions > 0 and len(st['got']) > 0
    return finish(k, case, viol, nontrivial)


def _role_of(a):
    n = a.kind
    for r in ('producer', 'consumer', 'joiner', 'QueueFeederThread', 'user', 'group'):
        if n.startswith(r):
            return r
    return n


def _evaluate(k, case, st, end, bad):
    # C16.x unexpected exceptions
    for a in k.actors:
        if a.exc is not None:
            bad('C16.x', 'actor-exception:%s:%s' % (_role_of(a), type(a.exc).__name__), '%s: %r' % (a.name, a.exc))
    for rname, tname, rep in st['crashes']:
        bad('C16.x', 'actor-exception:%s:%s' % (rname, tname), '%s process: %s' % (rname, rep))
    # C16.f liveness.  After a crash the peers of the dead actor hang and its items are missing: those are
    # consequences, the exception is the finding.  A feeder waiting for work is only reported when nobody else
    # is stuck (the creator closes the queue last).
    crashed = bool(st['crashes']) or any(a.exc is not None for a in k.actors)
    if end == 'deadlock':
        if not crashed:
            stuck = set(_role_of(a) for a in k.actors if a.state != 'done') - {'user', 'group'}
            if len(stuck) > 1:
                stuck.discard('QueueFeederThread')
            bad('C16.f', 'deadlock:%s' % '+'.join(sorted(stuck) or ['user']), repr(k.blocked_report())[:900])
    elif end != 'quiescent':
        bad('C16.f', 'no-quiescence:%s' % end, 'run ended by %s at step %d, t=%.3f' % (end, k.steps, k.now))
    # C16.a conservation
    put = st['put']
    seen = {}
    for ci, oi, item in st['got']:
        key = (item[0], item[1])
        if key not in put:
            # an item whose put did not return yet (only possible when the run did not finish) is still legal
            exp = None
            if isinstance(key[0], int) and 0 <= key[0] < len(case['producers']) and \
                    isinstance(key[1], int) and 0 <= key[1] < len(case['producers'][key[0]]['ops']):
                exp = _payload(key[0], key[1], case['producers'][key[0]]['ops'][key[1]]['size'])
            if exp is None:
                bad('C16.a', 'unknown-item', 'consumer %d op %d got %r' % (ci, oi, key))
                continue
        else:
            exp = put[key]
        if item[2] != exp:
            bad('C16.a', 'item-changed', 'item %r arrived with %d bytes, put with %d' % (key, len(item[2]), len(exp)))
        if key in seen:
            bad('C16.a', 'item-twice', 'item %r returned to consumer ops %r and %r' % (key, seen[key], (ci, oi)))
        seen[key] = (ci, oi)
    if end == 'quiescent' and not crashed:
        lost = sorted(set(put) - set(seen))
        if lost:
            bad('C16.a', 'item-lost', '%d accepted item(s) never returned, e.g. %r' % (len(lost), lost[:4]))
    # C16.b per-producer order by the stamp "last read of the consumer before its get returned"
    log = k.log
    if len(log) < k.log_cap:
        rfd = st['rfd']
        last_read = {}
        per_prod = {}
        for e in log:
            kind = e[2]
            if kind == 'read':
                if e[3] == rfd and e[4]:
                    last_read[e[1]] = e[0]
            elif kind == 'gE':
                if e[5] >= 0:
                    per_prod.setdefault(e[5], []).append((last_read.get(e[1], -1), e[6], e[1]))
        for pi, lst in sorted(per_prod.items()):
            lst.sort()
            seqs = [s for _st, s, _a in lst]
            for i in range(1, len(seqs)):
                if seqs[i] < seqs[i - 1]:
                    bad('C16.b', 'producer-order-broken',
                        'producer %d: item %d dequeued (by %s, last read at step %d) before item %d (by %s, '
                        'step %d)' % (pi, seqs[i - 1], lst[i - 1][2], lst[i - 1][0], seqs[i], lst[i][2], lst[i][0]))
                    break
