"""S-RESTART: billiard.common.restart_state driven through generated histories of restart
requests, time gaps (simulated clock) and acceptance resets, against a model written from the
property text.  Serves C11 (part 1).  No interleaving is involved here: the only seam is the
clock; this part is a seeded history sweep and the evidence says so."""
from .common import new_kernel, finish, V, state
from . import poolsim

RUNS_PER_FORK = 25
COMPONENTS = {'real': ['billiard/common.py restart_state.__init__/step'], 'stub': ['time.monotonic -> simulated clock']}
ASSUMPTIONS = ['the simulated clock starts at a positive offset (restart_state tests its window start for truth)']
RULE = ('case = (max_restarts 1-6 or None, max_restart_freq 0.3-3s, 3-40 events: restart after gap g | acceptance '
        'reset); single actor, simulated clock; distinct = distinct workload; non-trivial = at least one refusal or '
        'one window expiry occurred')
PROBES = ['refused', 'window_expired', 'reset_by_acceptance', 'restart_exactly_at_window_end']


def generate(rng, tier, prop='C11'):
    maxR = rng.choice([None, 1, 1, 2, 3, 4, 6])
    maxT = rng.choice([0.3, 0.5, 1.0, 1.0, 3.0])
    ev = []
    for _ in range(rng.randint(3, 40)):
        r = rng.random()
        if r < 0.8:
            g = rng.choice([0.0, 0.0, 0.01, 0.1, maxT / 2, maxT - 0.001, maxT, maxT + 0.001, 2 * maxT])
            ev.append(['restart', round(g, 4)])
        else:
            ev.append(['accept'])
    return {'maxR': maxR, 'maxT': maxT, 'events': ev, 'explicit_now': rng.random() < 0.3, 'policy': 'fifo'}


def shrink(case):
    ev = case['events']
    for i in range(len(ev)):
        if len(ev) > 1:
            c = dict(case)
            c['events'] = ev[:i] + ev[i + 1:]
            yield c


def execute(case, seed, choices=None):
    k = new_kernel(seed, {'policy': 'fifo', 'horizon': 2000.0, 'max_steps': 5000}, choices)
    poolsim.install_pool()
    import billiard.common as BC
    from billiard.exceptions import RestartFreqExceeded
    viol = []
    info = {'refused': 0, 'expired': 0}

    def user():
        rs = BC.restart_state(case['maxR'], case['maxT'])
        maxR, maxT = case['maxR'], case['maxT']
        count, start = 0, None
        for i, ev in enumerate(case['events']):
            if ev[0] == 'accept':
                rs.R = 0            # what ResultHandler.on_ack does
                count = 0
                k.probe('reset_by_acceptance')
                continue
            k.sleep(ev[1])
            now = k.now
            # the model (from the property text)
            if start is not None and now - start >= maxT:
                if abs((now - start) - maxT) < 1e-9:
                    k.probe('restart_exactly_at_window_end')
                start, count = None, 0
                info['expired'] += 1
                k.probe('window_expired')
            if maxR and count >= maxR:
                expect = 'refused'
                count = 0
            else:
                expect = 'admitted'
                if start is None:
                    start = now
                count += 1
            try:
                if case.get('explicit_now'):
                    rs.step(now)
                else:
                    rs.step()
                got = 'admitted'
            except RestartFreqExceeded:
                got = 'refused'
                info['refused'] += 1
                k.probe('refused')
            if got != expect:
                viol.append(V('C11.m', 'limiter-%s-should-have-%s' % (got, expect),
                              'event %d at t=%.4f: budget %r per %rs; %s, model says %s'
                              % (i, now - k.cfg.get('t0', 1000.0), maxR, maxT, got, expect)))
                return
    k.spawn_actor(k.root, user, 'P0.user', main=True)
    end = k.run()
    for a in k.actors:
        if a.exc is not None:
            viol.append(V('C11.x', 'actor-exception:%s' % type(a.exc).__name__, repr(a.exc)))
    return finish(k, case, viol, info['refused'] + info['expired'] > 0)
