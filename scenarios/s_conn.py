"""S-CONN: billiard.connection Pipe()/Connection framing over simulated pipes and
socket pairs with short/split/interrupted I/O, tiny pipe buffers and peer close
at arbitrary byte offsets.  Serves C13."""
import array
import struct

from .common import new_kernel, finish, V, POLICIES, state, seams

RUNS_PER_FORK = 10
COMPONENTS = {
    'real': ['billiard/connection.py: Pipe, Connection._send/_recv loops, _send_bytes/_recv_bytes framing, '
             'send_bytes/recv_bytes/recv_bytes_into/send/recv/poll argument and state checks, wait()',
             'billiard/reduction.py ForkingPickler (send/recv)'],
    'stub': ['os.read/os.write/os.close/os.pipe/socket.socketpair/select.poll -> simulated kernel: byte FIFOs with '
             'per-run capacity 64B..64KiB, short reads/writes, EINTR, EOF/EPIPE'],
}
ASSUMPTIONS = [
    'a pipe or stream socket never loses, duplicates, reorders or corrupts bytes',
    'EINTR is only injected on read/write (not on poll)',
    'lengths near the 2**31-1 framing limit are not allocated; largest message 4 MiB (thorough) / 256 KiB (quick)',
]
RULE = ('case = (pipe|socketpair, pipe capacity, short-I/O on/off, EINTR rate, message sequence with lengths around '
        '0/1/16384/capacity/64KiB/large and source buffer kinds + offset/size, receive ops with maxlength/buffer/'
        'offset choices, optional peer close at a byte offset, invalid-argument probes); distinct = distinct '
        '(workload hash, schedule fingerprint); non-trivial = a message was split across >= 2 reads or writes, or a '
        'fault (EINTR/close/limit) fired')
PROBES = ['header_split', 'payload_split', 'close_in_header', 'close_in_payload', 'close_at_boundary',
          'msg_at_maxlength', 'msg_over_maxlength', 'buffer_too_short', 'eintr', 'write_blocked_full_pipe',
          'large_msg_two_writes']


def _payload(i, n):
    base = bytes(range(256))
    off = (i * 37 + 11) % 256
    reps = n // 256 + 2
    body = (base * reps)[off:off + n]
    if n >= 4:
        body = struct.pack('!I', 0xA5000000 | i) + body[4:]
    return body


def generate(rng, tier, prop='C13'):
    caps = [64, 100, 512, 4096, 5000, 65536]
    cap = rng.choice(caps)
    big = (4 << 20) if tier == 'thorough' else (256 << 10)
    # (a message crosses the pipe in pieces of at most `cap` bytes, one system call each on either side: keep the
    # largest message within what the step budget of a run can carry)
    big = min(big, cap * 8000)
    lens = [0, 1, 2, 3, 4, 5, 100, 16383, 16384, 16385, cap - 1, cap, cap + 1, cap - 4, cap - 5,
            65535, 65536, 65537]
    nmsg = rng.randint(1, 6)
    msgs = []
    for i in range(nmsg):
        r = rng.random()
        if r < 0.75:
            n = max(0, rng.choice(lens))
        elif r < 0.93:
            n = rng.randint(0, 3 * cap)
        else:
            n = rng.randint(65536, big)
        kind = rng.choice(['bytes', 'bytes', 'bytearray', 'memoryview', 'array_b', 'array_i', 'obj'])
        m = {'len': n, 'kind': kind}
        if kind == 'array_i':
            m['len'] = n - n % 4
        if kind != 'obj' and rng.random() < 0.35:
            # send a window of a larger buffer
            m['pre'] = rng.randint(0, 9)
            m['post'] = rng.randint(0, 9)
            if kind == 'array_i':
                m['pre'] -= m['pre'] % 4
                m['post'] -= m['post'] % 4
        msgs.append(m)
    recvs = []
    for i, m in enumerate(msgs):
        n = m['len']
        if m['kind'] == 'obj':
            recvs.append({'op': 'recv'})
            continue
        r = rng.random()
        if r < 0.4:
            ml = rng.choice([None, None, n, n + 1, n - 1, 0, n + 100])
            recvs.append({'op': 'recv_bytes', 'maxlength': ml if ml is None or ml >= 0 else 0})
        elif r < 0.85:
            item = rng.choice(['b', 'b', 'B', 'i'])
            isz = 4 if item == 'i' else 1
            off = rng.choice([0, 0, 1, 4, 8])
            size = rng.choice([n + off, n + off + 3, n + off - 1, n + off + 64, n])
            if isz == 4:
                off -= off % 4
                size = size + (-size) % 4
                if n % 4:
                    item, isz = 'b', 1
            recvs.append({'op': 'recv_bytes_into', 'item': item, 'bufsize': max(0, size), 'offset': off})
        else:
            recvs.append({'op': 'poll_then_recv', 'timeout': rng.choice([0.0, 0.01, 1.0, None])})
    case = {
        'transport': rng.choice(['pipe', 'pipe', 'socketpair']),
        'pipe_cap': cap,
        'short_io': rng.random() < 0.6,
        'eintr': rng.choice([0.0, 0.0, 0.05, 0.2]),
        'policy': rng.choice(POLICIES),
        'msgs': msgs, 'recvs': recvs,
        'close': None,
        'probes_invalid': rng.random() < 0.3,
        'extra_recv': rng.randint(0, 2),
    }
    if rng.random() < 0.45:
        # peer closes after message index ci, having written `cut` raw bytes of the next one
        ci = rng.randint(0, nmsg)
        kindc = rng.choice(['boundary', 'header', 'payload', 'payload0'])
        case['close'] = {'after': ci, 'where': kindc, 'cut': rng.randint(1, 3), 'paylen': rng.choice([1, 10, 5000]),
                         'paycut': rng.random()}
    return case


def shrink(case):
    n = len(case['msgs'])
    for i in range(n):
        if n > 1:
            c = dict(case)
            c['msgs'] = case['msgs'][:i] + case['msgs'][i + 1:]
            c['recvs'] = case['recvs'][:i] + case['recvs'][i + 1:]
            if c.get('close'):
                cl = dict(c['close'])
                if cl['after'] > i:
                    cl['after'] -= 1
                c['close'] = cl
            yield c
    for key, val in (('short_io', False), ('eintr', 0.0), ('close', None), ('probes_invalid', False),
                     ('extra_recv', 0), ('transport', 'pipe')):
        if case.get(key) != val:
            c = dict(case)
            c[key] = val
            yield c
    for i, m in enumerate(case['msgs']):
        for nl in (0, 1, m['len'] // 2):
            if nl < m['len'] and m['kind'] != 'array_i':
                c = dict(case)
                c['msgs'] = [dict(x) for x in case['msgs']]
                c['msgs'][i]['len'] = nl
                yield c


def _raw_all(fd, data):
    off = 0
    while off < len(data):
        try:
            off += seams.os_shim.write(fd, data[off:])
        except InterruptedError:
            pass


class _Obj:
    """Picklable payload for send()/recv()."""

    def __init__(self, i, blob):
        self.i = i
        self.blob = blob

    def __eq__(self, other):
        return isinstance(other, _Obj) and (self.i, self.blob) == (other.i, other.blob)


def execute(case, seed, choices=None):
    # the step budget grows with the work the case asks for (bytes / piece size, both directions, short I/O halves
    # the pieces); it stays finite: a send that never finishes (livelock) is reported when it runs out
    work = sum(m['len'] + m.get('pre', 0) + m.get('post', 0) for m in case['msgs']) // max(1, case['pipe_cap'])
    k = new_kernel(seed, {'policy': case.get('policy', 'random'), 'horizon': 500.0,
                          'max_steps': max(400000, 24 * work),
                          'pipe_cap': case['pipe_cap'], 'short_io': case['short_io'], 'eintr': case['eintr'],
                          'log_cap': 20000},
                   choices)
    seams.install_conn()
    import billiard.connection as C
    from billiard import BufferTooShort
    viol = []
    info = {'sent_ok': 0, 'split': False}
    msgs = case['msgs']
    payloads = []
    for i, m in enumerate(msgs):
        if m['kind'] == 'obj':
            payloads.append(_Obj(i, _payload(i, m['len'])))
        else:
            payloads.append(_payload(i, m['len']))
    close = case.get('close')
    ends = {}

    def bad(clause, sig, detail):
        viol.append(V(clause, sig, detail))

    def sender():
        try:
            _sender()
        except OSError:
            if not info.get('receiver_stopped'):
                raise

    def _sender():
        w = ends['w']
        for i, m in enumerate(msgs):
            if close and close['after'] == i:
                break
            body = payloads[i]
            if m['kind'] == 'obj':
                w.send(body)
            else:
                pre, post = m.get('pre', 0), m.get('post', 0)
                raw = b'\xee' * pre + body + b'\xdd' * post
                if m['kind'] == 'bytes':
                    buf = raw
                elif m['kind'] == 'bytearray':
                    buf = bytearray(raw)
                elif m['kind'] == 'memoryview':
                    buf = memoryview(raw)
                elif m['kind'] == 'array_b':
                    buf = array.array('b')
                    buf.frombytes(raw)
                else:
                    buf = array.array('i')
                    buf.frombytes(raw)
                if 'pre' in m:
                    w.send_bytes(buf, pre, len(body))
                elif post == 0 and k.choose(2, 'sendform'):
                    w.send_bytes(buf, 0)
                else:
                    w.send_bytes(buf)
            info['sent_ok'] = i + 1
        if close:
            where = close['where']
            fd = w.fileno()
            if where == 'header':
                hdr = struct.pack('!i', close['paylen'])
                _raw_all(fd, hdr[:close['cut']])
                k.probe('close_in_header')
            elif where == 'payload':
                n = close['paylen']
                cut = min(n - 1, int(n * close['paycut']))
                data = struct.pack('!i', n) + _payload(99, n)[:cut]
                _raw_all(fd, data)
                k.probe('close_in_payload')
            elif where == 'payload0':
                data = struct.pack('!i', close['paylen'])
                _raw_all(fd, data)
                k.probe('close_in_payload')
            else:
                k.probe('close_at_boundary')
            w.close()
            k.record('peer-closed', where)
        elif case.get('extra_recv'):
            w.close()

    def recv_one(r, i, op, expect):
        """Receive message i (expect = bytes | _Obj); returns False when the connection is unusable afterwards."""
        if op['op'] == 'recv':
            got = r.recv()
            if got != expect:
                bad('C13.a', 'recv-object-differs', 'message %d' % i)
            return True
        body = expect
        n = len(body)
        if op['op'] == 'poll_then_recv':
            t0 = k.now
            pr = r.poll(op['timeout'])
            # no kernel call since poll returned: inspect the pipe atomically
            of = k.cur().proc.fds.get(r.fileno())
            p = of.rpipe
            avail = bool(p.buf) or p.writers == 0
            if pr and not avail:
                bad('C13.p', 'poll-true-nothing-there', 'message %d' % i)
            if not pr:
                if avail:
                    bad('C13.p', 'poll-false-data-there', 'message %d' % i)
                tmo = op['timeout']
                if tmo is None:
                    bad('C13.p', 'poll-none-false', 'poll(None) returned False')
                elif k.now < t0 + int(tmo * 1000) / 1000.0 - 1e-9:
                    bad('C13.p', 'poll-early', 'poll(%r) False after %.4f' % (tmo, k.now - t0))
            got = r.recv_bytes()
            if got != body:
                bad('C13.a', 'recv_bytes-differs', 'message %d len %d got len %d' % (i, n, len(got)))
            return True
        if op['op'] == 'recv_bytes':
            ml = op['maxlength']
            if ml is not None and n == ml:
                k.probe('msg_at_maxlength')
            if ml is not None and n > ml:
                k.probe('msg_over_maxlength')
                try:
                    got = r.recv_bytes(ml)
                except OSError as exc:
                    if isinstance(exc, EOFError):
                        bad('C13.c', 'oversize-eof', 'oversized message reported as EOF')
                    if r.closed is False and r.readable:
                        bad('C13.c', 'oversize-still-readable', 'connection still readable after bad message length')
                    return False
                bad('C13.c', 'maxlength-exceeded', 'recv_bytes(%d) returned %d bytes' % (ml, len(got)))
                return False
            got = r.recv_bytes(ml)
            if got != body:
                bad('C13.a', 'recv_bytes-differs', 'message %d len %d got len %d' % (i, n, len(got)))
            return True
        # recv_bytes_into
        item, bufsize, off = op['item'], op['bufsize'], op['offset']
        fill = b'\x5a' * bufsize
        buf = array.array(item)
        buf.frombytes(fill)
        if bufsize < off + n:
            k.probe('buffer_too_short')
            try:
                r.recv_bytes_into(buf, off)
            except BufferTooShort as exc:
                if exc.args[0] != body:
                    bad('C13.c', 'buffertooshort-wrong-payload', 'message %d' % i)
                if buf.tobytes() != fill:
                    bad('C13.c', 'buffertooshort-buffer-touched', 'message %d' % i)
                return True
            except ValueError:
                if off > bufsize:
                    return 'not-consumed'
                raise
            bad('C13.c', 'buffer-overrun-accepted', 'buf %d offset %d message %d' % (bufsize, off, n))
            return True
        size = r.recv_bytes_into(buf, off)
        raw = buf.tobytes()
        if size != n or raw[off:off + n] != body:
            bad('C13.a', 'recv_bytes_into-differs', 'message %d len %d size %r' % (i, n, size))
        if raw[:off] != fill[:off] or raw[off + n:] != fill[off + n:]:
            bad('C13.c', 'recv_bytes_into-wrote-outside', 'message %d' % i)
        return True

    def receiver():
        r = ends['r']
        nsend = close['after'] if close else len(msgs)
        usable = True
        i = 0
        while i < nsend and usable:
            io0 = k.n_io
            res = recv_one(r, i, case['recvs'][i], payloads[i])
            if res == 'not-consumed':
                if k.n_io != io0:
                    bad('C13.d', 'io-before-arg-check', 'recv_bytes_into did I/O before rejecting the offset')
                res = recv_one(r, i, {'op': 'recv_bytes', 'maxlength': None}, payloads[i])
            usable = bool(res)
            i += 1
        if not usable:
            info['receiver_stopped'] = True
            return
        if close or case.get('extra_recv'):
            where = close['where'] if close else 'boundary'
            try:
                got = r.recv_bytes()
            except EOFError:
                pass        # an error either way; the statement only requires EOFError for a clean end
            except OSError:
                if where == 'boundary':
                    bad('C13.b', 'clean-eof-not-eoferror', 'end of stream at a boundary raised OSError')
            else:
                bad('C13.b', 'data-after-close', 'close %s: recv_bytes returned %d bytes' % (where, len(got)))
            # and again: still an error, never data
            try:
                r.recv_bytes()
            except (EOFError, OSError):
                pass
            else:
                bad('C13.b', 'data-after-eof', 'second receive after end of stream returned data')

    def invalid_probes():
        r, w = C.Pipe(duplex=False)
        checks = [
            ('send-neg-offset', lambda: w.send_bytes(b'abc', -1), ValueError),
            ('send-offset-too-big', lambda: w.send_bytes(b'abc', 4), ValueError),
            ('send-neg-size', lambda: w.send_bytes(b'abc', 0, -1), ValueError),
            ('send-size-too-big', lambda: w.send_bytes(b'abc', 1, 3), ValueError),
            ('recv-neg-maxlength', lambda: r.recv_bytes(-1), ValueError),
            ('recv-into-neg-offset', lambda: r.recv_bytes_into(bytearray(4), -1), ValueError),
            ('recv-into-offset-too-big', lambda: r.recv_bytes_into(bytearray(4), 5), ValueError),
            ('send-on-readonly', lambda: r.send_bytes(b'x'), OSError),
            ('send-obj-on-readonly', lambda: r.send(1), OSError),
            ('recv-on-writeonly', lambda: w.recv_bytes(), OSError),
            ('recv-obj-on-writeonly', lambda: w.recv(), OSError),
            ('recv-into-on-writeonly', lambda: w.recv_bytes_into(bytearray(4)), OSError),
            ('poll-on-writeonly', lambda: w.poll(), OSError),
        ]
        for name, fn, exc in checks:
            io0 = k.n_io
            try:
                fn()
            except exc:
                pass
            except Exception as e:     # noqa
                bad('C13.d', 'wrong-exception:%s' % name, repr(e))
            else:
                bad('C13.d', 'accepted:%s' % name, 'no exception')
            if k.n_io != io0:
                bad('C13.d', 'io-before-check:%s' % name, 'I/O happened before the argument/state check')
        r.close()
        w.close()
        for name, fn in (('closed-send', lambda: w.send_bytes(b'x')), ('closed-recv', lambda: r.recv_bytes()),
                         ('closed-poll', lambda: r.poll()), ('closed-fileno', lambda: r.fileno())):
            io0 = k.n_io
            try:
                fn()
            except OSError:
                pass
            else:
                bad('C13.d', 'accepted:%s' % name, 'no exception on closed handle')
            if k.n_io != io0:
                bad('C13.d', 'io-before-check:%s' % name, 'I/O on a closed handle')

    def user():
        if case['transport'] == 'pipe':
            r, w = C.Pipe(duplex=False)
        else:
            r, w = C.Pipe(duplex=True)
        ends['r'], ends['w'] = r, w
        k.spawn_thread(sender, 'sender')
        k.spawn_thread(receiver, 'receiver')
        if case.get('probes_invalid'):
            invalid_probes()

    k.spawn_actor(k.root, user, 'P0.user', main=True)
    end = k.run()
    for a in k.actors:
        if a.exc is not None:
            viol.append(V('C13.x', 'actor-exception:%s:%s' % (a.kind, type(a.exc).__name__), '%s: %r' % (a.name, a.exc)))
        elif a.state != 'done':
            # sender may legitimately block forever if the receiver stopped after an oversize message
            if a.kind == 'sender' and any(v['clause'] for v in viol) is False:
                pass
    if end == 'deadlock':
        rdone = all(a.state == 'done' for a in k.actors if a.kind == 'receiver')
        stuck = [a for a in k.actors if a.state != 'done']
        if not (rdone and all(a.kind == 'sender' for a in stuck)):
            viol.append(V('C13.live', 'deadlock', repr(k.blocked_report())[:600]))
    elif end in ('steps', 'horizon'):
        viol.append(V('C13.live', 'no-quiescence:%s' % end, ''))
    if k.faults.get('eintr'):
        k.probe('eintr')
    nshort = k.faults.get('short_read', 0) + k.faults.get('short_write', 0)
    nontrivial = nshort > 0 or bool(k.faults) or close is not None or k.probes.get('write_blocked_full_pipe', 0) > 0
    return finish(k, case, viol, nontrivial)
