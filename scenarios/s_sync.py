"""S-SYNC: billiard.synchronize (Lock, RLock, Semaphore, BoundedSemaphore, Condition,
Event) running for real on the simulated SemLock.  Serves C17."""
import pickle

from .common import (SimContext, dump_for_child, new_kernel, finish, V, POLICIES, state, seams)

COMPONENTS = {
    'real': ['billiard/synchronize.py: SemLock wrapper, Lock, RLock, Semaphore, BoundedSemaphore, '
             'Condition (wait/notify/notify_all), Event; pickling via __getstate__/__setstate__ under '
             'the spawning context (process mode)'],
    'stub': ['_multiprocessing.SemLock -> simos.objects.SimSemLock (kernel semaphore; semantics from '
             'CPython semaphore.c, cross-checked by selftest/conformance.py)', 'time.monotonic -> simulated clock',
             'processes -> simulated process table; threads -> baton-passing actors'],
}
ASSUMPTIONS = [
    'mutual exclusion / counting of the real POSIX semaphore is trusted; the simulated SemLock is its model',
    'pre-emption granularity = one semaphore operation (acquire/release/get_value), as the property states',
    'timeouts fire whenever the scheduler says so once simulated time reached the deadline',
]
RULE = ('case = (primitive kind, thread|process mode, 2-5 actor programs of wait/notify/notify_all/set/clear/'
        'is_set/acquire/release/sleep ops, sweeper rounds) drawn from the seed; one run = one seeded schedule. '
        'distinct = distinct (workload hash, schedule fingerprint over decisions with >=2 runnable actors); '
        'non-trivial = at least 2 actors interleaved at a decision AND at least one wait/acquire actually blocked')
RUNS_PER_FORK = 20
PROBES = ['cond_timeout_between_release_and_woken_acquire', 'cond_notify_only_timedout_sleepers',
          'cond_notify_all_mixed_sleepers', 'event_set_races_wait_final_check', 'cond_rezero_took_token',
          'sem_blocked', 'timed_wait_timed_out', 'wait_woken']


def _ctx():
    seams.install_sync()
    return SimContext()


# ---------------------------------------------------------------------- generation
def generate(rng, tier, prop='C17'):
    kind = rng.choice(['cond', 'cond', 'cond', 'event', 'event', 'mutex'])
    nact = rng.randint(2, 5 if tier == 'thorough' else 4)
    mode = rng.choice(['threads', 'threads', 'procs'])
    policy = rng.choice(POLICIES)
    case = {'kind': kind, 'mode': mode, 'policy': policy, 'programs': [], 'sweeps': rng.randint(1, 3)}
    tms = [0.0, 0.05, 0.3, 0.3, 1.0, 2.0]
    if rng.random() < 0.5:
        # timeouts that expire at the very instant another actor acts (its sleep is as long): with discrete
        # time such ties are the only way a timeout and a notify/set can race
        t0 = rng.choice([0.05, 0.3, 1.0])
        tms = [0.0, t0, t0, t0, t0, rng.choice([0.05, 0.3, 2.0])]
    if kind == 'cond' and rng.random() < 0.15:
        # several timed waiters whose timeouts expire while a notify_all()/notify() is in progress
        case['lock'] = rng.choice(['RLock', 'Lock', None])
        t0 = rng.choice([0.05, 0.3, 1.0])
        nw = rng.randint(2, 3)
        for a in range(nw):
            case['programs'].append([['wait', t0]] + ([['wait', rng.choice([0.05, 0.3])]] if rng.random() < 0.5 else []))
        case['programs'].append([['sleep', t0], [rng.choice(['notify_all', 'notify_all', 'notify'])]] +
                                ([['sleep', 0.05], ['notify']] if rng.random() < 0.5 else []))
    elif kind == 'cond':
        case['lock'] = rng.choice(['RLock', 'Lock', None])
        for a in range(nact):
            prog = []
            for _ in range(rng.randint(1, 4)):
                r = rng.random()
                if r < 0.45:
                    prog.append(['wait', rng.choice([None, None] + tms)])
                elif r < 0.70:
                    prog.append(['notify'])
                elif r < 0.85:
                    prog.append(['notify_all'])
                else:
                    prog.append(['sleep', rng.choice(tms[1:])])
            case['programs'].append(prog)
    elif kind == 'event':
        for a in range(nact):
            prog = []
            for _ in range(rng.randint(1, 4)):
                r = rng.random()
                if r < 0.4:
                    prog.append(['wait', rng.choice([None] + tms)])
                elif r < 0.6:
                    prog.append(['set'])
                elif r < 0.75:
                    prog.append(['clear'])
                elif r < 0.9:
                    prog.append(['is_set'])
                else:
                    prog.append(['sleep', rng.choice(tms[1:])])
            case['programs'].append(prog)
    else:
        case['prim'] = rng.choice(['Lock', 'RLock', 'Semaphore', 'BoundedSemaphore'])
        case['n'] = 1 if case['prim'] in ('Lock', 'RLock') else rng.randint(1, 3)
        for a in range(nact):
            prog = []
            for _ in range(rng.randint(1, 3)):
                r = rng.random()
                if r < 0.8:
                    prog.append(['crit', rng.choice([True, True, False]), rng.choice([None, None, 0.0, 0.3, 1.0]),
                                 rng.randint(0, 3), rng.choice([0, 0, 0.2])])
                elif r < 0.9:
                    prog.append(['over_release'])
                else:
                    prog.append(['sleep', rng.choice(tms[1:])])
            case['programs'].append(prog)
    return case


def shrink(case):
    progs = case['programs']
    # drop a whole program
    if len(progs) > 1:
        for i in range(len(progs)):
            c = dict(case)
            c['programs'] = progs[:i] + progs[i + 1:]
            yield c
    # drop one op
    for i, p in enumerate(progs):
        for j in range(len(p)):
            if len(p) > 1:
                c = dict(case)
                c['programs'] = [list(q) for q in progs]
                del c['programs'][i][j]
                yield c
    if case.get('sweeps', 0) > 1:
        c = dict(case)
        c['sweeps'] = case['sweeps'] - 1
        yield c
    if case['mode'] == 'procs':
        c = dict(case)
        c['mode'] = 'threads'
        yield c


# ---------------------------------------------------------------------- execution
def execute(case, seed, choices=None):
    k = new_kernel(seed, {'policy': case.get('policy', 'random'), 'horizon': 400.0, 'max_steps': 20000},
                   choices)
    ctx = _ctx()
    kind = case['kind']
    shared = {}
    holders = {'n': 0, 'max': 0, 'cap': 0, 'bad': []}
    errors = []

    def setup():
        if kind == 'cond':
            lk = case.get('lock')
            lock = ctx.RLock() if lk == 'RLock' else ctx.Lock() if lk == 'Lock' else None
            c = ctx.Condition(lock)
            shared['obj'] = c
            shared['ids'] = {'sleeping': c._sleeping_count._semlock.handle,
                             'woken': c._woken_count._semlock.handle,
                             'wait': c._wait_semaphore._semlock.handle,
                             'lock': c._lock._semlock.handle}
        elif kind == 'event':
            e = ctx.Event()
            shared['obj'] = e
            c = e._cond
            shared['ids'] = {'flag': e._flag._semlock.handle,
                             'sleeping': c._sleeping_count._semlock.handle,
                             'woken': c._woken_count._semlock.handle,
                             'wait': c._wait_semaphore._semlock.handle,
                             'lock': c._lock._semlock.handle}
        else:
            prim = case['prim']
            n = case['n']
            o = {'Lock': ctx.Lock, 'RLock': ctx.RLock}[prim]() if prim in ('Lock', 'RLock') else \
                {'Semaphore': ctx.Semaphore, 'BoundedSemaphore': ctx.BoundedSemaphore}[prim](n)
            shared['obj'] = o
            shared['ids'] = {'sem': o._semlock.handle}
            holders['cap'] = n

    def run_prog(pi, prog, obj):
        rec = k.record
        for oi, op in enumerate(prog):
            name = op[0]
            if name == 'sleep':
                k.sleep(op[1])
            elif kind == 'cond':
                with obj:
                    rec('B', pi, oi, name, op[1] if len(op) > 1 else None, k.now)
                    if name == 'wait':
                        r = obj.wait(op[1])
                    elif name == 'notify':
                        r = obj.notify()
                    else:
                        r = obj.notify_all()
                    rec('E', pi, oi, r, k.now)
            elif kind == 'event':
                rec('B', pi, oi, name, op[1] if len(op) > 1 else None, k.now)
                if name == 'wait':
                    r = obj.wait(op[1])
                elif name == 'set':
                    r = obj.set()
                elif name == 'clear':
                    r = obj.clear()
                else:
                    r = obj.is_set()
                rec('E', pi, oi, r, k.now)
            else:
                if name == 'crit':
                    _n, block, timeout, ticks, hold = op
                    t0 = k.now
                    rec('B', pi, oi, 'acquire', (block, timeout), k.now)
                    got = obj.acquire(block, timeout) if (timeout is not None or not block) else obj.acquire()
                    rec('E', pi, oi, got, k.now)
                    if got:
                        holders['n'] += 1
                        if holders['n'] > holders['cap']:
                            holders['bad'].append((k.steps, holders['n'], holders['cap']))
                        holders['max'] = max(holders['max'], holders['n'])
                        for _ in range(ticks):
                            k.yield_('tick')
                        if hold:
                            k.sleep(hold)
                        holders['n'] -= 1
                        try:
                            obj.release()
                        except (ValueError, AssertionError):
                            if not holders.get('stolen'):
                                raise
                    else:
                        if block and timeout is None:
                            errors.append(('untimed-acquire-false', pi, oi))
                        if block and timeout is not None and timeout > 0 and k.now < t0 + timeout - 1e-9:
                            errors.append(('acquire-false-before-deadline', pi, oi, t0, timeout, k.now))
                else:   # over_release
                    prim = case['prim']
                    ks = shared['obj']._semlock._s
                    rec('B', pi, oi, 'over_release', None, k.now)
                    try:
                        obj.release()
                        r = 'ok'
                    except ValueError:
                        r = 'ValueError'
                    except AssertionError:
                        r = 'AssertionError'
                    post = ks.value          # no kernel call since release(): atomic with it
                    rec('E', pi, oi, (r, post), k.now)
                    if r == 'ok':
                        holders['stolen'] = True
                        holders['cap'] += 1      # a slot was added (Semaphore) or taken from a holder
                        if prim in ('Lock', 'BoundedSemaphore') and post > case['n']:
                            errors.append(('over-release-accepted', prim, pi, oi, post))
                        if prim == 'RLock':
                            errors.append(('rlock-foreign-release-accepted', pi, oi))
                    elif r == 'ValueError':
                        if prim == 'Semaphore' or post < case['n']:
                            errors.append(('release-refused-below-bound', prim, pi, oi, post))

    def sweeper(obj):
        for s in range(case.get('sweeps', 1)):
            k.sleep(50.0)
            if kind == 'cond':
                with obj:
                    k.record('B', 'S', s, 'notify_all', None, k.now)
                    obj.notify_all()
                    k.record('E', 'S', s, None, k.now)

    def user():
        setup()
        obj = shared['obj']
        acts = []
        if case['mode'] == 'threads':
            for pi, prog in enumerate(case['programs']):
                acts.append(k.spawn_thread(lambda pi=pi, prog=prog: run_prog(pi, prog, obj), 'a%d' % pi))
            if kind == 'cond':
                acts.append(k.spawn_thread(lambda: sweeper(obj), 'sweeper'))
        else:
            data, fds = dump_for_child(obj)
            for pi, prog in enumerate(case['programs']):
                def main(pi=pi, prog=prog):
                    o = pickle.loads(data)
                    run_prog(pi, prog, o)
                    k.exit_now(0)
                k.create_process('a%d-' % pi, main, inherit_fds=fds)
            if kind == 'cond':
                def smain():
                    o = pickle.loads(data)
                    sweeper(o)
                    k.exit_now(0)
                k.create_process('sweeper-', smain, inherit_fds=fds)

    k.spawn_actor(k.root, user, 'P0.user', main=True)
    end = k.run()
    viol = []
    ids = shared.get('ids', {})
    log = k.log
    try:
        if kind == 'cond':
            viol += _check_cond(k, case, ids, log)
        elif kind == 'event':
            viol += _check_event(k, case, ids, log)
        else:
            viol += _check_mutex(k, case, ids, log, holders, errors)
    except Exception as exc:       # oracle bug = harness error, not a verdict
        raise
    for a in k.actors:
        if a.exc is not None:
            viol.append(V('C17.x', 'actor-exception:%s' % type(a.exc).__name__, '%s: %r' % (a.name, a.exc)))
    if end in ('steps', 'horizon'):
        viol.append(V('C17.live', 'no-quiescence:%s' % end, 'run ended by %s' % end))
    res = finish(k, case, viol, nontrivial=(k.n_decisions > 0 and k.probes.get('sem_blocked', 0) > 0))
    return res


def _any_blocked(log):
    for e in log:
        if e[2] == 'E' and e[4] in (True, False):
            return True
    return False


def _ops(log):
    """-> dict (pi, oi) -> {name,arg,actor,b,e,res,tb,te}"""
    ops = {}
    for e in log:
        if e[2] == 'B':
            ops[(e[3], e[4])] = {'name': e[5], 'arg': e[6], 'actor': e[1], 'b': e[0], 'tb': e[7],
                                 'e': None, 'res': None, 'te': None}
        elif e[2] == 'E':
            o = ops.get((e[3], e[4]))
            if o is not None:
                o['e'] = e[0]
                o['res'] = e[5]
                o['te'] = e[6]
    return ops


def _check_cond(k, case, ids, log):
    viol = []
    ops = _ops(log)
    sleeping, woken, waitsem = ids['sleeping'], ids['woken'], ids['wait']
    # per actor: list of (step, kind, semid, val)
    per_actor = {}
    for e in log:
        if e[2] in ('sem-acq', 'sem-rel'):
            per_actor.setdefault(e[1], []).append(e)
    waits, notes = [], []
    for key, o in sorted(ops.items(), key=lambda kv: kv[1]['b']):
        if o['name'] == 'wait':
            ann = wk = None
            tmo = None
            for e in per_actor.get(o['actor'], ()):
                if e[0] < o['b'] or (o['e'] is not None and e[0] > o['e']):
                    continue
                if ann is None and e[2] == 'sem-rel' and e[3] == sleeping:
                    ann = e[0]
                elif ann is not None and wk is None and e[2] == 'sem-rel' and e[3] == woken:
                    wk = e[0]
                elif e[2] == 'sem-acq' and e[3] == waitsem and e[4] == 'timeout':
                    tmo = e[0]
            o['ann'], o['wk'], o['tmo'], o['key'] = ann, wk, tmo, key
            waits.append(o)
        elif o['name'] in ('notify', 'notify_all'):
            o['key'] = key
            notes.append(o)
    # probes
    for w in waits:
        if w['res'] is True:
            k.probe('wait_woken')
        if w['res'] is False:
            k.probe('timed_wait_timed_out')
        if w['tmo'] is not None and w['wk'] is not None:
            for n in notes:
                if n['e'] is not None and n['b'] < w['wk'] and n['e'] > w['tmo'] and n['b'] > (w['ann'] or 0):
                    k.probe('cond_timeout_between_release_and_woken_acquire')
    # (a) wait(None) never returns False; timed False only after the deadline
    for w in waits:
        if w['e'] is None:
            continue
        if w['res'] is False:
            if w['arg'] is None:
                viol.append(V('C17.a', 'untimed-wait-false', 'wait(None) returned False: %r' % (w['key'],)))
            elif w['te'] < w['tb'] + w['arg'] - 1e-9:
                viol.append(V('C17.a', 'timed-wait-early', 'wait(%r) returned False at %.3f, started %.3f'
                              % (w['arg'], w['te'], w['tb'])))
        elif w['res'] is not True:
            viol.append(V('C17.a', 'wait-result-type', 'wait returned %r' % (w['res'],)))

    def sleeping_at(n):
        return [w for w in waits if w['ann'] is not None and w['ann'] < n['b'] and
                (w['wk'] is None or w['wk'] > n['b'])]
    # (b) every True wait is attributable to a distinct grant: bipartite matching
    true_waits = [w for w in waits if w['res'] is True]
    cand = {}
    for i, w in enumerate(true_waits):
        cand[i] = [j for j, n in enumerate(notes) if w['ann'] is not None and w['ann'] < n['b'] and
                   (w['wk'] is None or n['b'] < w['wk'])]
    match = {}       # notify index -> wait index (capacity 1 for notify)

    def try_assign(i, seen):
        for j in cand[i]:
            if notes[j]['name'] == 'notify_all':
                return True
            if j in seen:
                continue
            seen.add(j)
            if j not in match or try_assign(match[j], seen):
                match[j] = i
                return True
        return False
    for i, w in enumerate(true_waits):
        if not try_assign(i, set()):
            viol.append(V('C17.b', 'wake-without-grant',
                          'wait %r returned True but no notify/notify_all can account for it '
                          '(candidates %r)' % (w['key'], [notes[j]['key'] for j in cand[i]])))
    # (c) liveness of untimed waiters
    for n in notes:
        if n['e'] is None:
            continue
        sl = sleeping_at(n)
        untimed = [w for w in sl if w['arg'] is None]
        if any(w['arg'] is not None for w in sl) and untimed:
            k.probe('cond_notify_all_mixed_sleepers' if n['name'] == 'notify_all' else 'cond_notify_mixed')
        if sl and not untimed:
            k.probe('cond_notify_only_timedout_sleepers')
        if n['name'] == 'notify_all':
            for w in untimed:
                if w['res'] is not True or w['wk'] is None or w['wk'] > n['e']:
                    viol.append(V('C17.c', 'notify_all-lost-wakeup',
                                  'untimed waiter %r was sleeping when notify_all %r began; result %r, '
                                  'acknowledged wake at step %r, notify_all returned at step %r'
                                  % (w['key'], n['key'], w['res'], w['wk'], n['e'])))
        else:
            if len(sl) == 1 and untimed:
                w = sl[0]
                if w['res'] is not True or w['wk'] is None or w['wk'] > n['e']:
                    viol.append(V('C17.c', 'notify-lost-wakeup',
                                  'sole untimed waiter %r not woken by notify %r (result %r, acknowledged '
                                  'at step %r, notify returned at step %r)'
                                  % (w['key'], n['key'], w['res'], w['wk'], n['e'])))
    # (d) end state: counters consistent, nobody stuck except un-owed untimed waiters
    live = [a for a in k.actors if a.state != 'done']
    blocked_waiters = 0
    for a in live:
        if a.label == 'sem:%d' % waitsem:
            blocked_waiters += 1
        else:
            viol.append(V('C17.d', 'stuck:%s' % a.label.split(':')[0],
                          'actor %s blocked on %s at end (%s)' % (a.name, a.label, k.end_reason)))
    sv, wv, tv = k.sems[sleeping].value, k.sems[woken].value, k.sems[waitsem].value
    if not any(a.label != 'sem:%d' % waitsem for a in live):
        if tv != 0:
            viol.append(V('C17.d', 'stale-token', 'wait semaphore holds %d token(s) at quiescence' % tv))
        if sv - wv != blocked_waiters:
            viol.append(V('C17.d', 'count-mismatch', 'sleeping=%d woken=%d blocked waiters=%d'
                          % (sv, wv, blocked_waiters)))
    return viol


def _check_event(k, case, ids, log):
    viol = []
    ops = _ops(log)
    flag = ids['flag']
    # which op is an actor executing at a given step
    by_actor = {}
    for key, o in ops.items():
        by_actor.setdefault(o['actor'], []).append(o)

    def op_at(actor, step):
        for o in by_actor.get(actor, ()):
            if o['b'] <= step and (o['e'] is None or step <= o['e']):
                return o
        return None
    timeline = [(0, 0)]
    for e in log:
        if e[2] == 'sem-rel' and e[3] == flag:
            o = op_at(e[1], e[0])
            if o is not None and o['name'] == 'set':
                timeline.append((e[0], 1))
        elif e[2] == 'sem-acq' and e[3] == flag:
            o = op_at(e[1], e[0])
            if o is not None and o['name'] == 'clear':
                timeline.append((e[0], 0))
        if e[2] in ('sem-acq', 'sem-rel') and e[3] == flag and k.sems[flag].maxvalue and False:
            pass

    def values_in(b, e):
        vals = set()
        cur = 0
        for st, v in timeline:
            if st <= b:
                cur = v
        vals.add(cur)
        for st, v in timeline:
            if b < st <= e:
                vals.add(v)
        return vals
    last = k.steps + 1
    for key, o in ops.items():
        e = o['e'] if o['e'] is not None else last
        vals = values_in(o['b'], e)
        if o['name'] == 'wait' and o['e'] is not None:
            if o['res'] is True:
                k.probe('wait_woken')
                if 1 not in vals:
                    viol.append(V('C17.e', 'event-wait-true-never-set', 'wait %r returned True, flag never 1 in call' % (key,)))
            elif o['res'] is False:
                k.probe('timed_wait_timed_out')
                if o['arg'] is None:
                    viol.append(V('C17.e', 'event-untimed-wait-false', 'wait(None) returned False %r' % (key,)))
                elif o['te'] < o['tb'] + o['arg'] - 1e-9:
                    viol.append(V('C17.e', 'event-wait-early', 'wait(%r) False at %.3f start %.3f' % (o['arg'], o['te'], o['tb'])))
                if 0 not in vals:
                    viol.append(V('C17.e', 'event-wait-false-while-set', 'wait %r returned False, flag was 1 throughout' % (key,)))
            else:
                viol.append(V('C17.e', 'event-wait-result-type', repr(o['res'])))
        elif o['name'] == 'is_set' and o['e'] is not None:
            if (1 if o['res'] else 0) not in vals:
                viol.append(V('C17.e', 'is_set-wrong', 'is_set %r returned %r, flag values in call %r' % (key, o['res'], vals)))
    # flag semaphore never above 1
    for e in log:
        if e[2] == 'sem-rel' and e[3] == flag and isinstance(e[4], int) and e[4] > 1:
            viol.append(V('C17.e', 'flag-above-one', 'flag semaphore reached %r' % (e[4],)))
            break
    final = timeline[-1][1]
    waitsem = ids['wait']
    for a in k.actors:
        if a.state == 'done':
            continue
        if a.label == 'sem:%d' % waitsem:
            if final == 1:
                viol.append(V('C17.e', 'event-lost-wakeup', 'actor %s still waiting, event is set' % a.name))
        else:
            viol.append(V('C17.d', 'stuck:%s' % a.label.split(':')[0],
                          'actor %s blocked on %s at end' % (a.name, a.label)))
    return viol


def _check_mutex(k, case, ids, log, holders, errors):
    viol = []
    for b in holders['bad'][:1]:
        viol.append(V('C17.m', 'too-many-holders:%s' % case['prim'], 'step %d holders %d > capacity %d' % b))
    for err in errors[:3]:
        viol.append(V('C17.m', err[0], repr(err)))
    for a in k.actors:
        if a.state != 'done':
            viol.append(V('C17.d', 'stuck:%s' % a.label.split(':')[0], 'actor %s blocked on %s at end' % (a.name, a.label)))
    return viol
