"""S-SEM: billiard.pool.LaxBoundedSemaphore alone, its real acquire/release/grow/shrink/clear
code running on a simulated condition variable, driven by 2-4 actors.  Serves C10 (part 1)."""
from .common import new_kernel, finish, V, POLICIES, state
from . import poolsim

RUNS_PER_FORK = 20
COMPONENTS = {
    'real': ['billiard/pool.py LaxBoundedSemaphore.acquire (threading.Semaphore.acquire)/release/grow/shrink/clear'],
    'stub': ['threading.Condition/Lock -> simulated (every lock operation is a pre-emption point)'],
}
ASSUMPTIONS = ['threading.Condition semantics as modelled by simos.objects.SimCondition']
RULE = ('case = (initial size 1-4, 2-4 actor programs of hold(ticks)/try-hold/extra-release/grow/shrink/clear ops); '
        'distinct = distinct (workload hash, schedule fingerprint); non-trivial = an acquire blocked or a release was '
        'capped at the bound')
PROBES = ['acquire_blocked', 'release_capped', 'shrink_blocked', 'clear_with_holders']


def generate(rng, tier, prop='C10'):
    n = rng.randint(1, 4)
    progs = []
    for a in range(rng.randint(2, 4)):
        p = []
        for _ in range(rng.randint(1, 5)):
            r = rng.random()
            if r < 0.45:
                p.append(['hold', rng.randint(0, 3), rng.choice([0, 0, 0.1])])
            elif r < 0.6:
                p.append(['try_hold', rng.randint(0, 2)])
            elif r < 0.75:
                p.append(['extra_release'])
            elif r < 0.85:
                p.append(['grow'])
            elif r < 0.93:
                p.append(['shrink'])
            else:
                p.append(['clear'])
        progs.append(p)
    return {'size': n, 'programs': progs, 'policy': rng.choice(POLICIES)}


def shrink(case):
    progs = case['programs']
    if len(progs) > 1:
        for i in range(len(progs)):
            c = dict(case)
            c['programs'] = progs[:i] + progs[i + 1:]
            yield c
    for i, p in enumerate(progs):
        for j in range(len(p)):
            if len(p) > 1:
                c = dict(case)
                c['programs'] = [list(q) for q in progs]
                del c['programs'][i][j]
                yield c


def execute(case, seed, choices=None):
    k = new_kernel(seed, {'policy': case.get('policy', 'random'), 'horizon': 200.0, 'max_steps': 20000}, choices)
    poolsim.install_pool()
    viol = []
    seen = set()
    st = {'resizing': 0, 'outstanding': 0, 'sem': None, 'shrunk_blocked': 0}

    def bad(clause, sig, detail):
        if sig not in seen:
            seen.add(sig)
            viol.append(V(clause, sig, detail))

    def hook(kk):
        s = st['sem']
        if s is None:
            return
        if s._value < 0:
            bad('C10.a', 'semaphore-negative', 'value %d' % s._value)
        if not st['resizing'] and s._value > s._initial_value:
            bad('C10.a', 'semaphore-above-bound', 'value %d > bound %d (%s running)'
                % (s._value, s._initial_value, kk.current.kind if kk.current else '?'))

    def run(pi, prog):
        s = st['sem']
        for op in prog:
            name = op[0]
            if name in ('hold', 'try_hold'):
                if name == 'hold':
                    if s._value == 0:
                        k.probe('acquire_blocked')
                    got = s.acquire()
                else:
                    got = s.acquire(False)
                if got:
                    st['outstanding'] += 1
                    for _ in range(op[1]):
                        k.yield_('tick')
                    if name == 'hold' and op[2]:
                        k.sleep(op[2])
                    st['outstanding'] -= 1
                    s.release()
            elif name == 'extra_release':
                if s._value >= s._initial_value:
                    k.probe('release_capped')
                s.release()
            elif name == 'grow':
                st['resizing'] += 1
                s.grow()
                st['resizing'] -= 1
            elif name == 'shrink':
                if s._initial_value > 1:
                    st['resizing'] += 1
                    if s._value == 0:
                        k.probe('shrink_blocked')
                    s.shrink()
                    st['resizing'] -= 1
            elif name == 'clear':
                if st['outstanding']:
                    k.probe('clear_with_holders')
                st['resizing'] += 1
                s.clear()
                st['resizing'] -= 1

    def user():
        st['sem'] = poolsim.make_putlock(case['size'])
        acts = [k.spawn_thread(lambda pi=pi, p=p: run(pi, p), 'a%d' % pi) for pi, p in enumerate(case['programs'])]
        for a in acts:
            k.join_actor(a, 150.0)

    k.step_hook = hook
    k.spawn_actor(k.root, user, 'P0.user', main=True)
    end = k.run()
    s = st['sem']
    for a in k.actors:
        if a.exc is not None:
            bad('C10.x', 'actor-exception:%s' % type(a.exc).__name__, '%s: %r' % (a.name, a.exc))
    stuck = [a for a in k.actors if a.state != 'done']
    if end != 'quiescent' or stuck:
        # blocking forever is legitimate only for an acquire that nobody will ever satisfy (shrink/hold on 0 slots)
        if any(a.label != 'cond' and a.name != 'P0.user' for a in stuck):
            bad('C10.live', 'stuck', repr(k.blocked_report())[:400])
    elif s is not None and not st['outstanding']:
        if s._value != s._initial_value:
            bad('C10.q', 'slots-not-all-free-at-rest:semaphore-alone',
                'all holders released: value %d, bound %d' % (s._value, s._initial_value))
    nontrivial = k.n_decisions > 0 and (k.probes.get('acquire_blocked', 0) + k.probes.get('release_capped', 0) +
                                         k.probes.get('shrink_blocked', 0) > 0)
    return finish(k, case, viol, nontrivial)
