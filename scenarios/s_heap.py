"""S-HEAP: billiard.heap.Heap (malloc/free/_malloc/_free/_absorb/_free_pending_blocks) and
BufferWrapper, running for real on a simulated lock and fake arenas.  Serves C14.

The HeapMonitor defined here (structural invariants of the allocator, live-block model,
probes, re-entrant "GC" frees) is reused by S-SHM (C15)."""
import struct
import sys

from .common import new_kernel, finish, V, POLICIES, state, seams  # noqa: F401
from simos import seams_heap as SH

RUNS_PER_FORK = 15
PAGE = 4096
COMPONENTS = {
    'real': ['billiard/heap.py: Heap.__init__/malloc/free/_malloc/_free/_absorb/_free_pending_blocks/_roundup, '
             'BufferWrapper.__init__/create_memoryview/get_size (+ multiprocessing.util.Finalize driving free)'],
    'stub': ['threading.Lock -> simos.objects.SimLock (every lock operation is a pre-emption point)',
             'os.getpid -> simulated pid',
             'heap.Arena -> simos.seams_heap.FakeArena (zero-filled bytearray instead of an mmap of a temp file; '
             'creation is a pre-emption point and fails with OSError(ENOSPC)/MemoryError at planned call counts)',
             'garbage collector -> explicit events: a block is freed by another actor at any lock operation, or '
             're-entrantly by the allocating actor itself while it holds the heap lock'],
}
ASSUMPTIONS = [
    'a fresh mapping is zero-filled and arenas are never unmapped (as in the pinned heap.py)',
    'CPython list.append/list.pop are atomic (the comment in Heap.free relies on the GIL); pre-emption happens at '
    'lock operations, at arena creation and (per-run option) at up to 3 chosen line events inside heap.py',
    'callers free only blocks they got from malloc, once (double free / foreign blocks are outside the statement)',
]
RULE = ('case = (initial heap size, 1-3 actor programs of malloc(size)/BufferWrapper(size)/free(slot)/yield with sizes '
        '0..several pages, arena-failure plan, probability of a re-entrant GC free inside _malloc/_free/'
        '_free_pending_blocks, optional line pre-emption points, free-everything epilogue) drawn from the seed; one '
        'run = one seeded schedule. distinct = distinct (workload hash, schedule fingerprint); non-trivial = a free '
        'was deferred or merged with a neighbour, or an arena was added after the first, or an arena creation failed')
PROBES = ['deferred_free', 'deferred_processed_by_malloc', 'deferred_processed_by_free', 'merge_prev', 'merge_next',
          'merge_both', 'merge_none', 'exact_fit', 'split', 'arena_growth', 'arena_alloc_failed', 'reused_block',
          'gc_reentrant_free', 'gc_reentrant_in_free', 'gc_reentrant_in_malloc', 'wrapper_finalizer_free',
          'line_preempt', 'all_free_single_block_per_arena', 'malloc_blocked_on_lock']

SMALL = [0, 1, 7, 8, 9, 15, 16, 17, 24, 32, 40, 64, 100, 128, 200, 256, 500, 1000, 2000]
PAGEY = [4088, 4095, 4096, 4097, 4104, 5000, 8191, 8192, 8193, 12288, 12289, 16384]


# ====================================================================== monitor (shared with S-SHM)
class _PendingList(list):
    """Heap._pending_free_blocks replacement that counts deferrals (append = try-lock failed)."""
    k = None

    def append(self, block):
        self.k.probe('deferred_free')
        list.append(self, block)


class HeapMonitor:
    """Observes one Heap instance: wraps its private methods (as instance attributes, the
    real code runs unchanged underneath), keeps the model of live blocks and evaluates the
    structural invariants.  Reads heap state without any kernel call (usable from the step hook)."""

    def __init__(self, k, heap, world, prop, reent=0.0):
        self.k = k
        self.heap = heap
        self.world = world
        self.prop = prop
        self.reent = reent
        self.gc_hook = None              # callable(where) -> frees one victim of the current actor
        self.in_gc = False
        self.owned = {}                  # uid -> {'block','req',...} handed out, free() not yet called
        self.inflight_free = []          # blocks whose free() is in progress
        self.mallocs_in_flight = 0
        self.freed_ranges = []           # (arena idx, start, stop) ever freed (for the reuse probe)
        self.viol = []
        self._seen = set()
        self.failed_hook = False
        self.uid = 0
        cls = type(heap)
        self._cls = cls
        pl = _PendingList(heap._pending_free_blocks)
        pl.k = k
        heap._pending_free_blocks = pl
        heap._malloc = self._w_malloc
        heap._free = self._w_free
        heap._free_pending_blocks = self._w_free_pending

    # ------------------------------------------------------------------ violations
    def bad(self, clause, sig, detail):
        key = (clause, sig)
        if key in self._seen:
            return
        self._seen.add(key)
        self.viol.append(V('%s.%s' % (self.prop, clause), sig, detail))
        self.k.record('violation', clause, sig)

    # ------------------------------------------------------------------ wrappers (run under the heap lock)
    def _maybe_gc(self, where):
        if not self.reent or self.gc_hook is None or self.in_gc:
            return
        k = self.k
        if k.cur() is None:
            return
        if k.chance(self.reent, 'gc?'):
            self.in_gc = True
            try:
                self.gc_hook(where)
            finally:
                self.in_gc = False

    def _w_free_pending(self):
        heap = self.heap
        caller = sys._getframe(1).f_code.co_name
        self._maybe_gc('pending:' + caller)
        n = len(heap._pending_free_blocks)
        if n:
            self.k.probe('deferred_processed_by_malloc' if caller == 'malloc' else 'deferred_processed_by_free', n)
        return self._cls._free_pending_blocks(heap)

    def _w_malloc(self, size):
        heap, k, w = self.heap, self.k, self.world
        self._maybe_gc('malloc-before')
        free_blocks = list(heap._start_to_block.values())
        maxfree = max([b[2] - b[1] for b in free_blocks] or [-1])
        calls0 = w.calls
        try:
            block = self._cls._malloc(heap, size)
        except (OSError, MemoryError):
            k.probe('arena_alloc_failed')
            raise
        arena, start, stop = block
        if w.calls > calls0:
            k.probe('arena_growth')
            if maxfree >= size:
                self.bad('e', 'arena-while-free-extent-fits',
                         'request %d: a new arena of %d bytes was mapped although a free block of %d bytes existed'
                         % (size, stop - start, maxfree))
        else:
            if stop - start == size:
                k.probe('exact_fit')
            elif stop - start > size:
                k.probe('split')
            if block not in free_blocks:
                self.bad('d', 'malloc-block-not-from-free-list', 'request %d got %r' % (size, self.fmt(block)))
        ai = getattr(arena, 'idx', -1)
        for (fa, fs, fe) in self.freed_ranges:
            if fa == ai and fs < start + size and start < fe:
                k.probe('reused_block')
                break
        self._maybe_gc('malloc-after')
        return block

    def _w_free(self, block):
        heap, k = self.heap, self.k
        arena, start, stop = block
        self._maybe_gc('free')
        prev = (arena, start) in heap._stop_to_block
        nxt = (arena, stop) in heap._start_to_block
        k.probe('merge_both' if prev and nxt else 'merge_prev' if prev else 'merge_next' if nxt else 'merge_none')
        self.freed_ranges.append((getattr(arena, 'idx', -1), start, stop))
        if len(self.freed_ranges) > 400:
            del self.freed_ranges[:200]
        return self._cls._free(heap, block)

    # ------------------------------------------------------------------ model
    def begin_malloc(self):
        self.mallocs_in_flight += 1

    def end_malloc(self, block, req, rec=None):
        self.mallocs_in_flight -= 1
        self.uid += 1
        rec = rec if rec is not None else {}
        rec.update(block=block, req=req, uid=self.uid)
        self.owned[self.uid] = rec
        return rec

    def malloc_failed(self):
        self.mallocs_in_flight -= 1

    def begin_free(self, rec):
        del self.owned[rec['uid']]
        self.inflight_free.append(rec['block'])

    def end_free(self, rec):
        self.inflight_free.remove(rec['block'])

    @staticmethod
    def fmt(block):
        try:
            return (getattr(block[0], 'idx', '?'), block[1], block[2])
        except Exception:       # noqa
            return repr(block)[:60]

    # ------------------------------------------------------------------ invariants
    def lock_free(self):
        return not self.heap._lock._locked

    def step_hook(self, k):
        for a in k.actors:
            if a.state == 'blocked' and a.label == 'lock':
                k.probe('malloc_blocked_on_lock')
                break
        if self.failed_hook or self.heap._lock._locked:
            return
        n = len(self.viol)
        self.check('step')
        if len(self.viol) > n:
            self.failed_hook = True      # one report per run is enough; keep the run cheap

    def check(self, tag):
        """Structural invariants (a)-(d) + agreement with the model. Only meaningful while the
        heap lock is free; callers guarantee that (or accept a skipped check)."""
        heap = self.heap
        if heap._lock._locked:
            return False
        bad = self.bad
        fmt = self.fmt
        arenas = list(heap._arenas)
        known = {}
        for a in arenas:
            known[a] = []
        # ---- (d) index structures
        lengths = list(heap._lengths)
        if lengths != sorted(lengths) or len(set(lengths)) != len(lengths):
            bad('d', 'lengths-not-sorted-unique', '%s: _lengths=%r' % (tag, lengths))
        if sorted(heap._len_to_seq.keys()) != sorted(lengths):
            bad('d', 'lengths-vs-len_to_seq', '%s: _lengths=%r keys=%r' % (tag, lengths, sorted(heap._len_to_seq)))
        seq_blocks = []
        for length, seq in heap._len_to_seq.items():
            if not seq:
                bad('d', 'empty-seq-kept', '%s: length %r' % (tag, length))
            for b in seq:
                if b[2] - b[1] != length:
                    bad('d', 'block-under-wrong-length', '%s: %r filed under %r' % (tag, fmt(b), length))
                seq_blocks.append(b)
        free_blocks = list(heap._start_to_block.values())
        fset = set(free_blocks)
        if len(set(seq_blocks)) != len(seq_blocks):
            bad('d', 'free-block-listed-twice', tag)
        if set(seq_blocks) != fset or set(heap._stop_to_block.values()) != fset \
                or len(heap._stop_to_block) != len(heap._start_to_block):
            bad('d', 'free-indexes-disagree', '%s: by-length %d, by-start %d, by-stop %d blocks'
                % (tag, len(seq_blocks), len(heap._start_to_block), len(heap._stop_to_block)))
        for (a, s), b in heap._start_to_block.items():
            if b[0] is not a or b[1] != s:
                bad('d', 'start-key-mismatch', '%s: key %r block %r' % (tag, (getattr(a, 'idx', '?'), s), fmt(b)))
        for (a, e), b in heap._stop_to_block.items():
            if b[0] is not a or b[2] != e:
                bad('d', 'stop-key-mismatch', '%s: key %r block %r' % (tag, (getattr(a, 'idx', '?'), e), fmt(b)))
        # ---- (b) allocated blocks: aligned, inside the arena
        allocated = set(heap._allocated_blocks)
        for b in allocated:
            a, s, e = b
            if a not in known:
                bad('b', 'outside-arena', '%s: block %r in an arena the heap does not own' % (tag, fmt(b)))
                continue
            if s % 8:
                bad('b', 'misaligned', '%s: block %r' % (tag, fmt(b)))
            if not (0 <= s < e <= a.size):
                bad('b', 'outside-arena', '%s: block %r arena size %d' % (tag, fmt(b), a.size))
            known[a].append((s, e, 'live'))
        for b in free_blocks:
            a, s, e = b
            if a not in known:
                bad('a', 'free-block-unknown-arena', '%s: %r' % (tag, fmt(b)))
                continue
            known[a].append((s, e, 'free'))
        # ---- (a) exact tiling, (c) coalescing
        for a in arenas:
            iv = sorted(known[a])
            pos = 0
            last_kind = None
            for s, e, kind in iv:
                if s > pos:
                    bad('a', 'gap', '%s: arena %d bytes %d..%d belong to no block' % (tag, a.idx, pos, s))
                elif s < pos:
                    bad('a', 'overlap:%s-%s' % tuple(sorted((kind, last_kind or '?'))),
                        '%s: arena %d block %d..%d (%s) starts before %d' % (tag, a.idx, s, e, kind, pos))
                elif kind == 'free' and last_kind == 'free':
                    bad('c', 'adjacent-free-blocks', '%s: arena %d two free blocks meet at %d' % (tag, a.idx, s))
                if e <= s:
                    bad('a', 'empty-or-negative-block', '%s: arena %d block %d..%d' % (tag, a.idx, s, e))
                pos = max(pos, e)
                last_kind = kind
            if pos < a.size:
                bad('a', 'gap', '%s: arena %d bytes %d..%d belong to no block' % (tag, a.idx, pos, a.size))
            elif pos > a.size:
                bad('b', 'outside-arena', '%s: arena %d blocks reach %d, size %d' % (tag, a.idx, pos, a.size))
        # ---- model agreement
        owned_blocks = set()
        recs = list(self.owned.values())
        for r in recs:
            b = r['block']
            if b in owned_blocks:
                bad('b', 'same-block-handed-out-twice', '%s: %r' % (tag, fmt(b)))
            owned_blocks.add(b)
            if b[2] - b[1] < r['req']:
                bad('b', 'too-small', '%s: requested %d got %d bytes' % (tag, r['req'], b[2] - b[1]))
            if b not in allocated:
                bad('b', 'live-not-allocated', '%s: live block %r missing from _allocated_blocks' % (tag, fmt(b)))
        # pairwise disjoint (independent of the heap's own bookkeeping)
        per = {}
        for r in recs:
            b = r['block']
            per.setdefault(getattr(b[0], 'idx', -1), []).append((b[1], b[2]))
        for ai, lst in per.items():
            lst.sort()
            for i in range(1, len(lst)):
                if lst[i][0] < lst[i - 1][1]:
                    bad('b', 'live-blocks-overlap', '%s: arena %s %r and %r' % (tag, ai, lst[i - 1], lst[i]))
        pending = list(heap._pending_free_blocks)
        for b in pending:
            if b not in allocated:
                bad('d', 'pending-not-allocated', '%s: deferred block %r not in _allocated_blocks' % (tag, fmt(b)))
        extra = allocated - owned_blocks - set(pending) - set(self.inflight_free)
        if len(extra) > self.mallocs_in_flight:
            bad('d', 'allocated-set-has-dead-block', '%s: %r' % (tag, sorted(fmt(b) for b in extra)[:4]))
        return True

    def abstract_state(self):
        heap = self.heap
        prof = tuple(min(n.bit_length(), 14) for n in heap._lengths)
        return (len(heap._arenas), prof, len(heap._allocated_blocks), len(heap._pending_free_blocks))

    def finalizer_exceptions(self):
        for name, text in getattr(self.k, 'unraisable', ()):
            self.bad('x', 'finalizer-exception:%s' % name, text)


def pattern(uid, n):
    return (struct.pack('<Q', 0xC14000000000 + uid) * (n // 8 + 1))[:n]


# ====================================================================== generation
def _size(rng):
    r = rng.random()
    if r < 0.62:
        return rng.choice(SMALL)
    if r < 0.75:
        return rng.randint(0, 3000)
    if r < 0.95:
        return rng.choice(PAGEY)
    return rng.randint(4000, 14000)


def generate(rng, tier, prop='C14'):
    nact = rng.choice([1, 2, 2, 3, 3])
    maxops = 30 if tier == 'thorough' else 16
    programs = []
    for a in range(nact):
        live = []
        nslot = 0
        prog = []
        for _ in range(rng.randint(3, maxops)):
            r = rng.random()
            if r < 0.5 or not live:
                kind = 'w' if rng.random() < 0.3 else 'm'
                if live and rng.random() < 0.08:
                    slot = rng.choice(live)         # overwrite an occupied slot (= free then malloc)
                else:
                    slot = nslot
                    nslot += 1
                    live.append(slot)
                prog.append([kind, slot, _size(rng)])
            elif r < 0.9:
                slot = rng.choice(live)
                live.remove(slot)
                prog.append(['f', slot])
            else:
                prog.append(['y'])
        programs.append(prog)
    fail = {}
    if rng.random() < 0.3:
        for _ in range(rng.randint(1, 2)):
            fail[str(rng.randint(1, 4))] = rng.choice(['ENOSPC', 'MemoryError'])
    case = {
        'policy': rng.choice(POLICIES),
        'heap_size': rng.choice([1, 256, 4096, 4096, 4097, 8192]),
        'programs': programs,
        'arena_fail': fail,
        'reent': rng.choice([0, 0, 0.1, 0.3]),
        'preempt': sorted(rng.randrange(1, 900) for _ in range(rng.randint(1, 3))) if rng.random() < 0.3 else [],
        'free_all': rng.random() < 0.6,
        'retry': rng.random() < 0.5,
    }
    return case


def shrink(case):
    progs = case['programs']
    if len(progs) > 1:
        for i in range(len(progs)):
            c = dict(case)
            c['programs'] = progs[:i] + progs[i + 1:]
            yield c
    for i, p in enumerate(progs):
        for j in range(len(p)):
            if len(p) > 1:
                c = dict(case)
                c['programs'] = [list(q) for q in progs]
                del c['programs'][i][j]
                yield c
    for key, val in (('arena_fail', {}), ('reent', 0), ('preempt', []), ('free_all', False), ('retry', False),
                     ('heap_size', 4096), ('policy', 'fifo')):
        if case.get(key) != val:
            c = dict(case)
            c[key] = val
            yield c
    for i, p in enumerate(progs):
        for j, op in enumerate(p):
            if op[0] in ('m', 'w'):
                for ns in (8, op[2] // 2):
                    if ns < op[2]:
                        c = dict(case)
                        c['programs'] = [[list(o) for o in q] for q in progs]
                        c['programs'][i][j][2] = ns
                        yield c
                if op[0] == 'w':
                    c = dict(case)
                    c['programs'] = [[list(o) for o in q] for q in progs]
                    c['programs'][i][j][0] = 'm'
                    yield c


# ====================================================================== execution
def execute(case, seed, choices=None):
    k = new_kernel(seed, {'policy': case.get('policy', 'random'), 'horizon': 100.0, 'max_steps': 30000,
                          'log_cap': 20000}, choices)
    SH.install_heap()
    import billiard.heap as H
    world = SH.ArenaWorld(k, case.get('arena_fail') or {})
    heap = SH.new_heap(case['heap_size'])
    mon = HeapMonitor(k, heap, world, 'C14', reent=case.get('reent', 0))
    old_heap = SH.set_wrapper_heap(heap)
    if case.get('preempt'):
        k.enable_line_preemption(('billiard/heap.py',), list(case['preempt']))
    nact = len(case['programs'])
    slots = [dict() for _ in range(nact + 1)]        # per actor: slot -> record ; last = user
    actor_index = {}
    info = {'ops': 0}

    def verify(rec, when, own=True):
        # own blocks are read the way a user would (through the wrapper); blocks of other
        # actors straight from the arena, atomically, without taking a reference to the wrapper
        block = rec['block']
        if own and 'bw' in rec:
            view = rec['bw'].create_memoryview()
        else:
            view = memoryview(block[0].buffer)[block[1]:block[1] + len(rec['pat'])]
        if bytes(view) != rec['pat']:
            mon.bad('f', 'content-changed', '%s: %d-byte block %r (request %d) no longer holds what its owner wrote'
                    % (when, len(rec['pat']), mon.fmt(block), rec['req']))
        view.release()

    def verify_all(when):
        me = actor_index.get(k.cur().name)
        for rec in list(mon.owned.values()):
            if rec['uid'] in mon.owned and 'pat' in rec:      # may have been freed meanwhile
                verify(rec, when, own=(rec['ai'] == me))

    def do_alloc(ai, slot, size, kind, retry):
        mon.begin_malloc()
        f0 = world.failed
        bw = None
        try:
            if kind == 'w':
                bw = H.BufferWrapper(size)
                block = bw._state[0]
            else:
                block = heap.malloc(size)
        except (OSError, MemoryError) as exc:
            mon.malloc_failed()
            if world.failed == f0:
                raise                      # not injected: a real failure of the code under test
            k.record('alloc-failed', ai, slot, size, type(exc).__name__)
            lk = heap._lock
            if lk._locked and lk._owner is k.cur():
                mon.bad('g', 'lock-held-after-failed-malloc', 'malloc(%d) raised %s and left the heap lock taken'
                        % (size, type(exc).__name__))
            mon.check('after-failed-malloc')
            if retry:
                do_alloc(ai, slot, size, kind, False)
            return
        rec = {'kind': kind, 'ai': ai}
        if bw is not None:
            rec['bw'] = bw
            view = bw.create_memoryview()
            if len(view) != size or bw.get_size() != size:
                mon.bad('f', 'wrapper-view-size', 'BufferWrapper(%d) gives a view of %d bytes' % (size, len(view)))
        else:
            view = memoryview(block[0].buffer)[block[1]:block[2]]
        mon.end_malloc(block, size, rec)
        rec['pat'] = pattern(rec['uid'], len(view))
        view[:] = rec['pat']
        view.release()
        del bw
        slots[ai][slot] = rec
        k.record('alloc', ai, slot, kind, size, mon.fmt(block))

    def do_free(ai, slot, reentrant=False):
        rec = slots[ai].pop(slot)
        verify(rec, 'before-free')
        block = rec['block']
        mon.begin_free(rec)
        if 'bw' in rec:
            bw = rec.pop('bw')
            k.probe('wrapper_finalizer_free')
            del bw                          # last reference: Finalize calls heap.free(block) right here
        else:
            heap.free(block)
        deferred = any(b is block or b == block for b in heap._pending_free_blocks)
        mon.end_free(rec)
        k.record('free', ai, slot, mon.fmt(block), deferred, reentrant)
        if reentrant and not deferred:
            mon.bad('h', 'reentrant-free-not-deferred',
                    'free() called while the same thread holds the heap lock was not put on the deferred list')

    def gc_hook(where):
        a = k.cur()
        ai = actor_index.get(a.name)
        if ai is None:
            return
        cands = sorted(slots[ai])
        if not cands:
            return
        slot = cands[k.choose(len(cands), 'gc-victim')]
        k.probe('gc_reentrant_free')
        k.probe('gc_reentrant_in_malloc' if 'malloc' in where else 'gc_reentrant_in_free')
        do_free(ai, slot, reentrant=True)

    mon.gc_hook = gc_hook

    def after_op():
        info['ops'] += 1
        verify_all('after-op')
        mon.check('after-op')

    def run_prog(ai, prog):
        actor_index[k.cur().name] = ai
        for op in prog:
            kind = op[0]
            if kind in ('m', 'w'):
                slot, size = op[1], op[2]
                if slot in slots[ai]:
                    do_free(ai, slot)
                do_alloc(ai, slot, size, kind, case.get('retry', False))
            elif kind == 'f':
                if op[1] in slots[ai]:
                    do_free(ai, op[1])
            else:
                k.yield_('tick')
            after_op()

    def user():
        acts = []
        for ai, prog in enumerate(case['programs']):
            acts.append(k.spawn_thread(lambda ai=ai, prog=prog: run_prog(ai, prog), 't%d' % ai))
        for a in acts:
            k.join_actor(a)
        actor_index[k.cur().name] = nact
        if any(a.exc is not None for a in acts):
            return
        verify_all('epilogue')
        if case.get('free_all'):
            for ai in range(nact):
                for slot in sorted(slots[ai]):
                    do_free(ai, slot)
            # one more operation flushes whatever was deferred last
            mon.begin_malloc()
            b = heap.malloc(0)
            rec = mon.end_malloc(b, 0, {'kind': 'm', 'ai': nact})
            mon.begin_free(rec)
            heap.free(b)
            mon.end_free(rec)
            mon.check('epilogue')
            if heap._pending_free_blocks or heap._allocated_blocks:
                mon.bad('d', 'not-empty-after-freeing-everything', '%d allocated, %d deferred blocks remain'
                        % (len(heap._allocated_blocks), len(heap._pending_free_blocks)))
            elif len(heap._start_to_block) == len(heap._arenas):
                k.probe('all_free_single_block_per_arena')
        else:
            mon.check('epilogue')

    k.step_hook = mon.step_hook
    k.state_fn = mon.abstract_state
    try:
        k.spawn_actor(k.root, user, 'P0.user', main=True)
        end = k.run()
    finally:
        SH.set_wrapper_heap(old_heap)
    viol = mon.viol
    mon.finalizer_exceptions()
    for a in k.actors:
        if a.exc is not None:
            viol.append(V('C14.x', 'actor-exception:%s' % type(a.exc).__name__, '%s: %r' % (a.name, a.exc)))
    if end != 'quiescent':
        stuck = sorted(set(a.label.split(':')[0] for a in k.actors if a.state != 'done'))
        viol.append(V('C14.live', 'no-quiescence:%s:%s' % (end, ','.join(stuck)), repr(k.blocked_report())[:600]))
    if k.probes.get('sem_blocked'):
        pass
    p = k.probes
    nontrivial = bool(p.get('deferred_free') or p.get('merge_prev') or p.get('merge_next') or p.get('merge_both')
                      or p.get('arena_growth', 0) > 1 or p.get('arena_alloc_failed'))
    return finish(k, case, viol, nontrivial)
