"""S-AUTH: Listener.accept / Client / deliver_challenge / answer_challenge over a
simulated stream socket, honest x honest and honest x hostile.  Serves C18."""
import hmac
import pickle

from .common import new_kernel, finish, V, POLICIES, state, seams, dump_for_child

RUNS_PER_FORK = 20
COMPONENTS = {
    'real': ['billiard/connection.py: Listener, SocketListener, Client, SocketClient, deliver_challenge, '
             'answer_challenge, Connection framing', 'billiard/process.py AuthenticationString', 'hmac (stdlib)'],
    'stub': ['socket / accept / connect / os.urandom -> simulated kernel (stream socket pairs with short I/O); '
             'the hostile peer is a scripted actor speaking the real framing'],
}
ASSUMPTIONS = [
    'HMAC-MD5 is not attacked cryptographically; hostile peers replay, truncate, extend, flip or substitute messages',
    'a relay/reflection of a correct digest computed by another honest key holder is outside the statement',
]
RULE = ('case = (listener key, client key [equal | one bit apart | prefix | long], honest or hostile side with a '
        'scripted message per handshake step, number of successive connections, short I/O); distinct = distinct '
        '(workload hash, schedule fingerprint); non-trivial = keys differ, or a hostile step deviates, or I/O was split')
PROBES = ['keys_equal', 'keys_bitflip', 'keys_prefix', 'hostile_correct_digest', 'hostile_replayed_digest',
          'hostile_oversize', 'hostile_close', 'hostile_wrong_verdict', 'second_connection_fresh_challenge']

CHALLENGE = b'#CHALLENGE#'
WELCOME = b'#WELCOME#'
FAILURE = b'#FAILURE#'

HOSTILE_RESP = ['correct', 'correct', 'truncated', 'extended', 'bitflip', 'otherkey', 'replay', 'welcome',
                'failure', 'random20', 'oversize', 'empty', 'close', 'challenge_echo']
HOSTILE_VERDICT = ['welcome', 'welcome', 'failure', 'random', 'empty', 'close', 'welcome_extra']
HOSTILE_CHAL = ['good', 'good', 'noprefix', 'short', 'oversize', 'close', 'empty_tail']


def _key(rng, kind, base=None):
    if kind == 'rand':
        n = rng.choice([1, 2, 8, 16, 32, 64, 65, 200, 4096])
        return bytes(rng.getrandbits(8) for _ in range(n))
    if kind == 'bitflip':
        b = bytearray(base)
        i = rng.randrange(len(b))
        b[i] ^= 1 << rng.randrange(8)
        return bytes(b)
    if kind == 'prefix':
        return base[:-1] if len(base) > 1 and rng.random() < 0.5 else base + bytes([rng.choice([0, 1, 32, 255])])
    if kind == 'case':
        return base.swapcase() if base.swapcase() != base else base + b'x'
    return base


def generate(rng, tier, prop='C18'):
    kl = _key(rng, 'rand')
    rel = rng.choice(['equal', 'equal', 'bitflip', 'prefix', 'rand', 'case'])
    kc = kl if rel == 'equal' else _key(rng, rel, kl)
    if kc == kl:
        rel = 'equal'
    mode = rng.choice(['honest', 'honest', 'hostile_client', 'hostile_client', 'hostile_listener'])
    nconn = rng.randint(1, 3)
    conns = []
    for _ in range(nconn):
        conns.append({'chal': rng.choice(HOSTILE_CHAL), 'resp': rng.choice(HOSTILE_RESP),
                      'verdict': rng.choice(HOSTILE_VERDICT), 'rnd': rng.getrandbits(32)})
    return {'kl': kl.hex(), 'kc': kc.hex(), 'rel': rel, 'mode': mode, 'conns': conns,
            'short_io': rng.random() < 0.5, 'pipe_cap': rng.choice([64, 512, 65536]),
            'policy': rng.choice(POLICIES), 'badtype': rng.random() < 0.15}


def shrink(case):
    if len(case['conns']) > 1:
        for i in range(len(case['conns'])):
            c = dict(case)
            c['conns'] = case['conns'][:i] + case['conns'][i + 1:]
            yield c
    for key, val in (('short_io', False), ('badtype', False), ('pipe_cap', 65536)):
        if case.get(key) != val:
            c = dict(case)
            c[key] = val
            yield c
    for i, cn in enumerate(case['conns']):
        for fld, good in (('chal', 'good'), ('resp', 'correct'), ('verdict', 'welcome')):
            if cn[fld] != good:
                c = dict(case)
                c['conns'] = [dict(x) for x in case['conns']]
                c['conns'][i][fld] = good
                yield c


def _digest(key, msg):
    return hmac.new(key, msg, 'md5').digest()


def execute(case, seed, choices=None):
    k = new_kernel(seed, {'policy': case.get('policy', 'random'), 'horizon': 300.0, 'max_steps': 60000,
                          'pipe_cap': case['pipe_cap'], 'short_io': case['short_io'], 'pipe_hist': True},
                   choices)
    seams.install_conn()
    import billiard.connection as C
    from billiard import AuthenticationError
    from billiard.process import AuthenticationString
    import random as _random
    viol = []
    kl, kc = bytes.fromhex(case['kl']), bytes.fromhex(case['kc'])
    mode = case['mode']
    addr = 'sim-auth-1'
    out = {'L': [], 'C': []}        # per connection: ('conn', msg-roundtrip-ok) | ('exc', type name)
    hostile_log = []
    seen_digests = []

    def bad(clause, sig, detail):
        viol.append(V(clause, sig, detail))

    def honest_listener(n):
        with C.Listener(addr, 'AF_UNIX', authkey=kl) as l:
            for i in range(n):
                try:
                    conn = l.accept()
                except (AuthenticationError, AssertionError, EOFError, OSError) as exc:
                    out['L'].append(('exc', type(exc).__name__))
                    continue
                try:
                    conn.send_bytes(b'hello-%d' % i)
                    got = conn.recv_bytes()
                    out['L'].append(('conn', got == b'world-%d' % i))
                except (EOFError, OSError) as exc:
                    out['L'].append(('conn', 'io:%s' % type(exc).__name__))
                conn.close()

    def honest_client(n):
        for i in range(n):
            try:
                conn = C.Client(addr, 'AF_UNIX', authkey=kc)
            except (AuthenticationError, AssertionError, EOFError, OSError) as exc:
                out['C'].append(('exc', type(exc).__name__))
                continue
            try:
                got = conn.recv_bytes()
                conn.send_bytes(b'world-%d' % i)
                out['C'].append(('conn', got == b'hello-%d' % i))
            except (EOFError, OSError) as exc:
                out['C'].append(('conn', 'io:%s' % type(exc).__name__))
            conn.close()

    def hostile_response(spec, key_true, challenge, rnd):
        r = _random.Random(rnd)
        good = _digest(key_true, challenge)
        kind = spec
        if kind == 'correct':
            k.probe('hostile_correct_digest')
            return good
        if kind == 'truncated':
            return good[:r.randrange(0, len(good))]
        if kind == 'extended':
            return good + bytes([r.randrange(256)])
        if kind == 'bitflip':
            b = bytearray(good)
            b[r.randrange(len(b))] ^= 1 << r.randrange(8)
            return bytes(b)
        if kind == 'otherkey':
            return _digest(key_true + b'x', challenge)
        if kind == 'replay':
            k.probe('hostile_replayed_digest')
            return seen_digests[-1] if seen_digests else good[::-1]
        if kind == 'welcome':
            return WELCOME
        if kind == 'failure':
            return FAILURE
        if kind == 'random20':
            return bytes(r.getrandbits(8) for _ in range(16))
        if kind == 'oversize':
            k.probe('hostile_oversize')
            return good + b'\x00' * 300
        if kind == 'empty':
            return b''
        if kind == 'challenge_echo':
            return CHALLENGE + challenge
        return None      # close

    def hostile_client(n):
        """Talks to the honest listener. Returns per connection what it did."""
        for i, spec in enumerate(case['conns'][:n]):
            rec = {'resp_ok': False, 'verdict_ok': False, 'aborted': False}
            hostile_log.append(rec)
            try:
                conn = C.SocketClient(addr)
                msg = conn.recv_bytes(256)
                challenge = msg[len(CHALLENGE):]
                rec['challenge'] = challenge
                if not msg.startswith(CHALLENGE) or len(challenge) != 20:
                    bad('C18.c', 'malformed-challenge', repr(msg[:40]))
                resp = hostile_response(spec['resp'], kl, challenge, spec['rnd'])
                if resp is None:
                    k.probe('hostile_close')
                    rec['aborted'] = True
                    conn.close()
                    continue
                rec['resp_ok'] = (resp == _digest(kl, challenge))
                conn.send_bytes(resp)
                verdict = conn.recv_bytes(256)
                rec['listener_verdict'] = verdict
                if verdict != WELCOME:
                    conn.close()
                    continue
                seen_digests.append(resp)
                # phase 2: we challenge the listener and judge its answer
                my = bytes(_random.Random(spec['rnd'] ^ 0x55).getrandbits(8) for _ in range(20))
                chal = spec['chal']
                if chal == 'good':
                    conn.send_bytes(CHALLENGE + my)
                elif chal == 'noprefix':
                    conn.send_bytes(b'#CHALLENGX#' + my)
                elif chal == 'short':
                    conn.send_bytes(CHALLENGE[:5])
                elif chal == 'oversize':
                    conn.send_bytes(CHALLENGE + my * 20)
                elif chal == 'empty_tail':
                    conn.send_bytes(CHALLENGE)
                    my = b''
                else:
                    rec['aborted'] = True
                    conn.close()
                    continue
                rec['chal_ok'] = chal in ('good', 'empty_tail')
                ans = conn.recv_bytes(256)
                if rec['chal_ok'] and ans != _digest(kl, my):
                    bad('C18.c', 'listener-wrong-digest', 'listener answered our challenge with a wrong digest')
                v = spec['verdict']
                if v == 'welcome':
                    conn.send_bytes(WELCOME)
                    rec['verdict_ok'] = True
                elif v == 'failure':
                    conn.send_bytes(FAILURE)
                elif v == 'random':
                    conn.send_bytes(b'#WELCOME')
                elif v == 'empty':
                    conn.send_bytes(b'')
                elif v == 'welcome_extra':
                    conn.send_bytes(WELCOME + b'!')
                else:
                    conn.close()
                    continue
                if v != 'welcome':
                    k.probe('hostile_wrong_verdict')
                if rec['verdict_ok']:
                    try:
                        got = conn.recv_bytes()
                        conn.send_bytes(b'world-%d' % i)
                    except (EOFError, OSError):
                        pass
                conn.close()
            except (EOFError, OSError) as exc:
                rec['io_error'] = type(exc).__name__

    def hostile_listener(n):
        """Honest clients connect to us."""
        ls = C.SocketListener(addr, 'AF_UNIX')
        for i, spec in enumerate(case['conns'][:n]):
            rec = {'resp_ok': False, 'verdict_ok': False, 'chal_ok': False}
            hostile_log.append(rec)
            try:
                conn = ls.accept()
                my = bytes(_random.Random(spec['rnd'] ^ 0x77).getrandbits(8) for _ in range(20))
                chal = spec['chal']
                if chal == 'good':
                    conn.send_bytes(CHALLENGE + my)
                elif chal == 'noprefix':
                    conn.send_bytes(b'#CHALLENGX#' + my)
                elif chal == 'short':
                    conn.send_bytes(CHALLENGE[:5])
                elif chal == 'oversize':
                    conn.send_bytes(CHALLENGE + my * 20)
                elif chal == 'empty_tail':
                    conn.send_bytes(CHALLENGE)
                    my = b''
                else:
                    conn.close()
                    continue
                rec['chal_ok'] = chal in ('good', 'empty_tail')
                ans = conn.recv_bytes(256)
                if rec['chal_ok'] and ans != _digest(kc, my):
                    bad('C18.c', 'client-wrong-digest', 'client answered our challenge with a wrong digest')
                v = spec['verdict']
                if v == 'welcome':
                    conn.send_bytes(WELCOME)
                    rec['verdict_ok'] = True
                elif v == 'failure':
                    conn.send_bytes(FAILURE)
                elif v == 'random':
                    conn.send_bytes(b'#WELCOME')
                elif v == 'empty':
                    conn.send_bytes(b'')
                elif v == 'welcome_extra':
                    conn.send_bytes(WELCOME + b'!')
                else:
                    conn.close()
                    continue
                if v != 'welcome':
                    k.probe('hostile_wrong_verdict')
                # phase 2: the client challenges us
                msg = conn.recv_bytes(256)
                challenge = msg[len(CHALLENGE):]
                rec['challenge'] = challenge
                if not msg.startswith(CHALLENGE) or len(challenge) != 20:
                    bad('C18.c', 'malformed-challenge', repr(msg[:40]))
                resp = hostile_response(spec['resp'], kc, challenge, spec['rnd'])
                if resp is None:
                    k.probe('hostile_close')
                    conn.close()
                    continue
                rec['resp_ok'] = (resp == _digest(kc, challenge))
                conn.send_bytes(resp)
                verdict = conn.recv_bytes(256)
                rec['peer_verdict'] = verdict
                if verdict == WELCOME:
                    seen_digests.append(resp)
                    try:
                        conn.send_bytes(b'hello-%d' % i)
                        conn.recv_bytes()
                    except (EOFError, OSError):
                        pass
                conn.close()
            except (EOFError, OSError) as exc:
                rec['io_error'] = type(exc).__name__
        ls.close()

    def badtype_probe():
        pls = C.SocketListener('sim-auth-bt', 'AF_UNIX')

        def probe_acceptor():
            # a peer that challenges whoever connects: any answer means the bad key was used
            for _ in range(2):
                try:
                    pc = pls.accept()
                except OSError:
                    return
                try:
                    pc.send_bytes(CHALLENGE + b'p' * 20)
                    ans = pc.recv_bytes(256)
                    bad('C18.t', 'non-bytes-key-used', 'client answered a challenge with a non-bytes key: %r' % (ans[:8],))
                    pc.send_bytes(FAILURE)
                except (EOFError, OSError):
                    pass
                pc.close()
        k.spawn_thread(probe_acceptor, 'probe-acceptor')
        for what, fn in (('listener-str-key', lambda: C.Listener('sim-auth-bad', 'AF_UNIX', authkey='secret')),
                         ('client-str-key', lambda: C.Client('sim-auth-bt', 'AF_UNIX', authkey='secret')),
                         ('client-bytearray-key', lambda: C.Client('sim-auth-bt', 'AF_UNIX',
                                                                   authkey=bytearray(b'secret'))),
                         ('listener-bytearray-key', lambda: C.Listener('sim-auth-bad2', 'AF_UNIX',
                                                                        authkey=bytearray(b'secret')))):
            try:
                fn()
            except TypeError:
                pass
            except (OSError, EOFError):
                pass        # e.g. connection refused before the key is looked at: key still never used
            except Exception as exc:    # noqa
                bad('C18.t', 'non-bytes-key:%s' % what, repr(exc))
            else:
                bad('C18.t', 'non-bytes-key-accepted:%s' % what, 'no TypeError')
        try:
            pickle.dumps(AuthenticationString(kl))
        except TypeError:
            pass
        else:
            bad('C18.t', 'authstring-pickled', 'AuthenticationString pickled outside spawning')
        data, _ = dump_for_child(AuthenticationString(kl))
        if pickle.loads(data) != kl:
            bad('C18.t', 'authstring-spawn-roundtrip', 'value changed')
        k.sleep(0.5)
        pls.close()

    n = len(case['conns'])

    def user():
        if mode == 'honest':
            k.spawn_thread(lambda: honest_listener(n), 'listener')
            k.sleep(0.01)
            k.spawn_thread(lambda: honest_client(n), 'client')
        elif mode == 'hostile_client':
            k.spawn_thread(lambda: honest_listener(n), 'listener')
            k.sleep(0.01)
            k.spawn_thread(lambda: hostile_client(n), 'hostile')
        else:
            k.spawn_thread(lambda: hostile_listener(n), 'hostile')
            k.sleep(0.01)
            k.spawn_thread(lambda: honest_client(n), 'client')
        if case.get('badtype'):
            k.sleep(0.01)
            badtype_probe()

    k.spawn_actor(k.root, user, 'P0.user', main=True)
    end = k.run()
    same = kl == kc
    # RFC 2104: keys up to the block size are zero-padded, so keys differing only in trailing NULs are one HMAC key
    hmac_equiv = (not same and max(len(kl), len(kc)) <= 64 and kl.rstrip(b'\0') == kc.rstrip(b'\0'))
    k.probe('keys_equal' if same else 'keys_' + case['rel'] if case['rel'] in ('bitflip', 'prefix') else 'keys_other')
    for a in k.actors:
        if a.exc is not None:
            viol.append(V('C18.x', 'actor-exception:%s:%s' % (a.kind, type(a.exc).__name__), '%s: %r' % (a.name, a.exc)))
    if end != 'quiescent':
        viol.append(V('C18.live', 'no-quiescence:%s' % end, repr(k.blocked_report())[:600]))
    nontrivial = (not same) or k.faults.get('short_read', 0) + k.faults.get('short_write', 0) > 0
    if mode == 'honest' and not viol:
        if len(out['L']) != n or len(out['C']) != n:
            viol.append(V('C18.a', 'missing-outcome', repr(out)))
        for i in range(min(len(out['L']), len(out['C']))):
            l, c = out['L'][i], out['C'][i]
            if same:
                if l != ('conn', True) or c != ('conn', True):
                    viol.append(V('C18.a', 'equal-keys-refused', 'conn %d listener %r client %r' % (i, l, c)))
            else:
                if l[0] == 'conn' or c[0] == 'conn':
                    viol.append(V('C18.a', 'different-keys-accepted:%s' % ('nul-padded-hmac-equivalent' if hmac_equiv
                                                                             else case['rel']),
                                  'conn %d listener %r client %r' % (i, l, c)))
                elif l[1] != 'AuthenticationError' or c[1] != 'AuthenticationError':
                    viol.append(V('C18.a', 'different-keys-wrong-exception', 'listener %r client %r' % (l, c)))
        # fresh challenge per deliver_challenge, and it is what went over the wire
        ur = [u for u in k.urandom_log if len(u) == 20]
        exp = 2 * n if (same or hmac_equiv) else n
        if len(ur) != exp:
            viol.append(V('C18.f', 'challenge-count', 'urandom(20) called %d times, expected %d' % (len(ur), exp)))
        wire = b''.join(bytes(v) for v in k.pipe_hist_data.values())
        for u in ur:
            if CHALLENGE + u not in wire:
                viol.append(V('C18.f', 'challenge-not-fresh', 'a urandom(20) value was not sent as the challenge'))
                break
        if len(set(ur)) != len(ur):
            viol.append(V('C18.f', 'challenge-repeated', ''))
        if n > 1:
            k.probe('second_connection_fresh_challenge')
    elif mode == 'hostile_client':
        nontrivial = True
        res = out['L']
        if len(res) != n and not viol:
            viol.append(V('C18.a', 'missing-outcome', repr(out)))
        for i, (rec, r) in enumerate(zip(hostile_log, res)):
            should = rec.get('resp_ok') and rec.get('verdict_ok') and rec.get('chal_ok')
            if r[0] == 'conn' and not should:
                viol.append(V('C18.h', 'hostile-client-accepted:%s/%s/%s' % (
                    case['conns'][i]['resp'], case['conns'][i]['chal'], case['conns'][i]['verdict']),
                    'listener returned a connection; hostile record %r' % (rec,)))
            if r[0] != 'conn' and should:
                viol.append(V('C18.h', 'correct-peer-refused', 'listener %r; record %r' % (r, rec)))
            if rec.get('resp_ok') is False and rec.get('listener_verdict') == WELCOME:
                viol.append(V('C18.h', 'wrong-digest-welcomed:%s' % case['conns'][i]['resp'], repr(rec)))
        chals = [rec.get('challenge') for rec in hostile_log if rec.get('challenge')]
        if len(set(chals)) != len(chals):
            viol.append(V('C18.f', 'challenge-repeated', 'listener reused a challenge across connections'))
        for ch in chals:
            if ch not in k.urandom_log:
                viol.append(V('C18.f', 'challenge-not-fresh', 'challenge on the wire is not a fresh urandom value'))
    elif mode == 'hostile_listener':
        nontrivial = True
        res = out['C']
        if len(res) != n and not viol:
            viol.append(V('C18.a', 'missing-outcome', repr(out)))
        for i, (rec, r) in enumerate(zip(hostile_log, res)):
            should = rec.get('resp_ok') and rec.get('verdict_ok') and rec.get('chal_ok')
            if r[0] == 'conn' and not should:
                viol.append(V('C18.h', 'hostile-listener-accepted:%s/%s/%s' % (
                    case['conns'][i]['resp'], case['conns'][i]['chal'], case['conns'][i]['verdict']),
                    'Client returned a connection; hostile record %r' % (rec,)))
            if r[0] != 'conn' and should:
                viol.append(V('C18.h', 'correct-peer-refused', 'client %r; record %r' % (r, rec)))
            if rec.get('resp_ok') is False and rec.get('peer_verdict') == WELCOME:
                viol.append(V('C18.h', 'wrong-digest-welcomed:%s' % case['conns'][i]['resp'], repr(rec)))
        chals = [rec.get('challenge') for rec in hostile_log if rec.get('challenge')]
        if len(set(chals)) != len(chals):
            viol.append(V('C18.f', 'challenge-repeated', 'client reused a challenge across connections'))
    return finish(k, case, viol, nontrivial)
