"""S-EINFO: the two input-only clauses of C12 (traceback depth bound around the frame limit and
stability under further pickle round trips).  NOT a simulation target: there is no schedule,
clock or fault in it; it is a seeded sweep executed in the same harness for completeness, and
the evidence labels it as such.  The schedule-dependent clauses of C12 run in S-POOL."""
import pickle
import traceback

from .common import new_kernel, finish, V

RUNS_PER_FORK = 25
COMPONENTS = {'real': ['billiard/einfo.py ExceptionInfo, Traceback, _Frame, _Code, _Truncated, ExceptionWithTraceback'],
              'stub': []}
ASSUMPTIONS = ['pure function of the input: seeded sweep, no simulation involved']
RULE = ('case = (exception type, args, traceback depth 1..beyond the recursion limit, number of pickle round trips '
        '0-4); distinct = distinct case; non-trivial = depth >= frame limit - 2 or >= 1 round trip')
PROBES = ['truncated', 'recursion_error', 'roundtrips_3plus']


class Custom(Exception):
    pass


class CustomBase(BaseException):
    pass


TYPES = {'ValueError': ValueError, 'KeyError': KeyError, 'Custom': Custom, 'CustomBase': CustomBase,
         'KeyboardInterrupt': KeyboardInterrupt, 'OSError': OSError}


def generate(rng, tier, prop='C12'):
    depth = rng.choice([0, 1, 2, 5, 50, 120, 122, 123, 124, 125, 126, 127, 128, 130, 200, 600, 2000])
    args = rng.choice([[], ['x'], [1, 'two', 3.0], [[1, 2], {'a': 1}], ['x' * 300]])
    return {'type': rng.choice(sorted(TYPES)), 'args': args, 'depth': depth, 'trips': rng.randint(0, 4),
            'policy': 'fifo'}


def shrink(case):
    for d in (0, 1, case['depth'] // 2):
        if d < case['depth']:
            c = dict(case)
            c['depth'] = d
            yield c
    if case['trips']:
        c = dict(case)
        c['trips'] -= 1
        yield c


def _raise_at(n, exc):
    if n <= 0:
        raise exc
    return _raise_at(n - 1, exc)


def _chain(tb):
    out = []
    n = 0
    while tb is not None and n < 100000:
        fr = tb.tb_frame
        out.append((fr.f_code.co_filename, fr.f_code.co_name, tb.tb_lineno))
        tb = tb.tb_next
        n += 1
    return out


def execute(case, seed, choices=None):
    k = new_kernel(seed, {'policy': 'fifo', 'max_steps': 100}, choices)
    from billiard.einfo import ExceptionInfo, DEFAULT_MAX_FRAMES
    viol = []

    def bad(clause, sig, detail):
        viol.append(V(clause, sig, detail))

    def user():
        exc = TYPES[case['type']](*[tuple(a) if isinstance(a, list) else a for a in case['args']])
        want_type, want_args = type(exc), exc.args
        try:
            _raise_at(case['depth'], exc)
        except RecursionError as e:
            einfo = ExceptionInfo()
            want_type, want_args = RecursionError, e.args
            k.probe('recursion_error')
        except BaseException:       # noqa
            einfo = ExceptionInfo()
        base_chain = _chain(einfo.tb)
        base_text = einfo.traceback
        if len(base_chain) > DEFAULT_MAX_FRAMES + 3:
            bad('C12.b', 'tb-depth-unbounded', '%d nodes for depth %d' % (len(base_chain), case['depth']))
        if len(base_chain) >= DEFAULT_MAX_FRAMES:
            k.probe('truncated')
        # the text names the frame that raised (its source line), however deep it is
        if ('_raise_at' not in base_text or 'raise exc' not in base_text) and want_type is not RecursionError:
            bad('C12.a', 'traceback-text-lacks-raising-frame', base_text[-200:])
        cur = einfo
        for trip in range(case['trips'] + 1):
            if trip:
                try:
                    cur = pickle.loads(pickle.dumps(cur))
                except Exception as e:      # noqa
                    bad('C12.c', 'not-picklable:trip-%d' % trip, repr(e))
                    return
            e = cur.exception
            inner = getattr(e, 'exc', e)
            if type(inner) is not want_type or inner.args != want_args:
                bad('C12.a', 'exception-changed', 'trip %d: %r%r, wanted %r%r'
                    % (trip, type(inner).__name__, inner.args, want_type.__name__, want_args))
            if cur.type is not want_type:
                bad('C12.a', 'type-field-changed', 'trip %d: %r' % (trip, cur.type))
            if cur.traceback != base_text:
                bad('C12.c', 'traceback-text-changed', 'trip %d' % trip)
            ch = _chain(cur.tb)
            if ch != base_chain:
                bad('C12.c', 'traceback-object-changed', 'trip %d: %d nodes vs %d' % (trip, len(ch), len(base_chain)))
            try:
                txt = ''.join(traceback.format_exception(cur.type, inner, cur.tb))
                if want_type.__name__ not in txt:
                    bad('C12.b', 'formatted-traceback-lacks-type', txt[-200:])
            except Exception as e2:      # noqa
                bad('C12.b', 'tb-not-formattable', 'trip %d: %r' % (trip, e2))
        if case['trips'] >= 3:
            k.probe('roundtrips_3plus')

    k.spawn_actor(k.root, user, 'P0.user', main=True)
    k.run()
    for a in k.actors:
        if a.exc is not None:
            viol.append(V('C12.x', 'actor-exception:%s' % type(a.exc).__name__, repr(a.exc)))
    return finish(k, case, viol, case['depth'] >= 120 or case['trips'] >= 1)
