"""Pool-level seams and simulated process creation (shared by S-POOL, S-PROTO, S-PROC).

A child process is created the way billiard's `spawn` start method does it: the process
object is pickled with the real reduction.dump under context.set_spawning_popen() and the
unpickled copy runs in a new simulated process that inherited only the descriptors the
pickling asked for."""
import io
import pickle
import re
import signal as _signal
import sys as _sys

from .common import SimContext, state, seams
from simos import objects as O
from simos.kernel import SimDead, SimAbort

import billiard.pool as P
import billiard.common as BC
import billiard.process as BP
import billiard.popen_fork as PF
import billiard.dummy as BD
import billiard.forkserver as FS
import billiard.popen_forkserver as PFS
from billiard import context as _bctx
from billiard import reduction as _red
import multiprocessing.util as _mpu


_ADDR = re.compile(r' at 0x[0-9a-fA-F]+')


class _DupFd:
    def __init__(self, fd):
        self.fd = fd

    def detach(self):
        return self.fd


def _default_int_handler(signum, frame):
    raise KeyboardInterrupt()


def child_bootstrap(process_obj):
    """Replica of BaseProcess._bootstrap's exit-code mapping (the real one mutates interpreter
    globals; it is verified separately by S-PROC in a sandbox)."""
    k = state.K
    try:
        BP._current_process = process_obj
        BP._children = set()
        try:
            process_obj.run()
            exitcode = 0
        finally:
            pass
    except SystemExit as exc:
        if not exc.args:
            exitcode = 1
        elif isinstance(exc.args[0], int):
            exitcode = exc.args[0]
        else:
            exitcode = 0 if isinstance(exc.args[0], str) else 1
    except (SimDead, SimAbort):
        raise
    except BaseException as exc:     # noqa
        exitcode = 1
        k.record('child-crash', type(exc).__name__, str(exc)[:120])
    return exitcode


class SimPopen(PF.Popen):
    method = 'sim'
    DupFd = _DupFd

    def __init__(self, process_obj):
        self._fds = []
        self.returncode = None
        self._launch(process_obj)

    def duplicate_for_child(self, fd):
        self._fds.append(fd)
        return fd

    def _launch(self, process_obj):
        k = state.K
        buf = io.BytesIO()
        _bctx.set_spawning_popen(self)
        try:
            _red.dump(process_obj, buf)
        finally:
            _bctx.set_spawning_popen(None)
        data = buf.getvalue()
        parent_r, child_w = k.pipe()
        me = k.cur().proc
        simfds = [fd for fd in self._fds if fd in me.fds] + [child_w]
        kind = getattr(process_obj, '_sim_kind', 'W')

        def main():
            obj = pickle.loads(data)
            if k.cfg.get('real_bootstrap'):
                code = obj._bootstrap()         # the repository's own exit-code mapping (S-PROC)
            else:
                code = child_bootstrap(obj)
            k.exit_now(code)
        child = k.create_process(kind, main, inherit_fds=simfds)
        child.sig[int(_signal.SIGINT)] = _default_int_handler
        child.sig[int(_signal.SIGPIPE)] = _signal.SIG_IGN
        if k.cfg.get('group_leaders'):
            child.pgid = child.pid
        self.pid = child.pid
        self.sentinel = parent_r
        k.close(child_w)
        hook = k.cfg.get('_on_child')
        if hook is not None:
            hook(child, process_obj)


class SimProcess(BP.BaseProcess):
    _start_method = None

    def __init__(self, *args, **kwargs):
        # a per-run serial number as hash: billiard keeps process objects in sets (process._children)
        # and iterates over them; identity hashes would make that order differ between interpreters
        k = state.K
        k.cfg['_proc_serial'] = self._sim_serial = k.cfg.get('_proc_serial', 0) + 1
        super().__init__(*args, **kwargs)

    def __hash__(self):
        return self._sim_serial

    def __eq__(self, other):
        return self is other

    @staticmethod
    def _Popen(process_obj):
        return SimPopen(process_obj)


class PoolContext(SimContext):
    Process = SimProcess


class SimFSPopen(SimPopen):
    """forkserver flavour: the real popen_forkserver.Popen.poll() reads the child's exit code from the
    status pipe (written by the child itself as forkserver._serve_one does); EOF without a code = 255."""
    method = 'sim-forkserver'
    poll = PFS.Popen.poll

    def _launch(self, process_obj):
        k = state.K
        buf = io.BytesIO()
        _bctx.set_spawning_popen(self)
        try:
            _red.dump(process_obj, buf)
        finally:
            _bctx.set_spawning_popen(None)
        data = buf.getvalue()
        parent_r, child_w = k.pipe()
        me = k.cur().proc
        simfds = [fd for fd in self._fds if fd in me.fds] + [child_w]

        def main():
            FS.write_unsigned(child_w, k.getpid())
            obj = pickle.loads(data)
            code = obj._bootstrap() if k.cfg.get('real_bootstrap') else child_bootstrap(obj)
            FS.write_unsigned(child_w, code)
            k.exit_now(code)
        child = k.create_process('W', main, inherit_fds=simfds)
        child.sig[int(_signal.SIGINT)] = _default_int_handler
        child.sig[int(_signal.SIGPIPE)] = _signal.SIG_IGN
        self.sentinel = parent_r
        k.close(child_w)
        hook = k.cfg.get('_on_child')
        if hook is not None:
            hook(child, process_obj)
        self.pid = FS.read_unsigned(self.sentinel)


class SimFSProcess(SimProcess):
    @staticmethod
    def _Popen(process_obj):
        return SimFSPopen(process_obj)


class FSContext(SimContext):
    Process = SimFSProcess


# ---------------------------------------------------------------------- DummyProcess -> actors
def _dp_start(self):
    self._start_called = True
    self._sim_actor = state.K.spawn_thread(self.run, type(self).__name__, thread_obj=self)


def _dp_join(self, timeout=None):
    a = getattr(self, '_sim_actor', None)
    if a is None:
        raise RuntimeError('cannot join thread before it is started')
    state.K.join_actor(a, timeout)


def _dp_is_alive(self):
    a = getattr(self, '_sim_actor', None)
    return a is not None and a.state != 'done'


def _mem_rss():
    return state.K.cur_proc_obj().rss


def install_pool():
    if 'pool' in seams._installed:
        return
    seams.install_sync()
    seams.install_conn()
    seams._installed.add('pool')
    _set = seams._set
    _set(P, 'os', seams.os_shim)
    _set(P, 'sys', seams.sys_shim)
    _set(P, 'time', seams.time_shim)
    _set(P, 'signal', seams.signal_shim)
    _set(P, 'threading', seams.threading_shim)
    _set(P, 'monotonic', seams.monotonic)
    _set(P, 'Lock', O.SimLock)
    _set(P, 'Queue', O.SimQueue)
    _set(P, '_kill', seams.os_shim.kill)
    _set(P, 'mem_rss', _mem_rss)
    d = P.Worker.workloop.__defaults__
    _set(P.Worker.workloop, '__defaults__', (d[0], seams.monotonic) + tuple(d[2:]))
    orig_guard = P.Worker._ensure_messages_consumed

    def _guard(self, completed):
        k = state.K
        t0 = k.now
        r = orig_guard(self, completed)
        p = k.cur_proc_obj()
        if not p.dead and not k.aborting:
            k.record('guard', p.pid, bool(r), round(k.now - t0, 3), completed)
        return r
    _set(P.Worker, '_ensure_messages_consumed', _guard)

    def _error(msg, *args, **kwargs):
        k = state.K
        if k is not None and not k.aborting:
            exc = next((a for a in args if isinstance(a, BaseException)), None)
            try:
                text = msg % args
            except Exception:       # noqa
                text = str(msg)
            text = _ADDR.sub(' at 0x?', text)       # object addresses differ between interpreters
            k.record('pool-error', text[:160], type(exc).__name__ if exc is not None else '')
    _set(P, 'error', _error)
    orig_soft = P.TimeoutHandler.on_soft_timeout
    orig_hard = P.TimeoutHandler.on_hard_timeout

    def _intent(kind, job):
        k = state.K
        k.record(kind, job._job)
        W = k.cfg.get('_world')
        if W is not None:
            W.flags['%s:%s' % (kind, job._job)] = k.steps

    def _soft(self, job):
        _intent('soft-intent', job)
        return orig_soft(self, job)

    def _hard(self, job):
        _intent('hard-intent', job)
        return orig_hard(self, job)
    orig_lost = P.Pool.mark_as_worker_lost

    def _lost(self, job, exitcode):
        _intent('lost-intent', job)
        return orig_lost(self, job, exitcode)
    _set(P.Pool, 'mark_as_worker_lost', _lost)
    _set(P.TimeoutHandler, 'on_soft_timeout', _soft)
    _set(P.TimeoutHandler, 'on_hard_timeout', _hard)
    orig_step = BC.restart_state.step

    def _step(self, now=None):
        k = state.K
        serial = getattr(self, '_sim_serial', None)
        if serial is None:
            serial = self._sim_serial = k.cfg['_rs_serial'] = k.cfg.get('_rs_serial', 0) + 1
        before = (self.R, self.T)
        self.__dict__['_in_step'] = True
        try:
            r = orig_step(self, now)
        except BC.RestartFreqExceeded:
            self.__dict__['_in_step'] = False
            k.record('rs-step', serial, self.maxR, self.maxT, before[0], before[1], k.now, 'refused')
            k.probe('restart_limit_hit')
            raise
        self.__dict__['_in_step'] = False
        k.record('rs-step', serial, self.maxR, self.maxT, before[0], before[1], k.now, 'admitted')
        return r
    _set(BC.restart_state, 'step', _step)

    def _rs_setattr(self, name, value):
        # record-only: the instant somebody else (the result handler, on an accept message) zeroes the count
        self.__dict__[name] = value
        if name == 'R' and value == 0 and not self.__dict__.get('_in_step'):
            k = state.K
            if k is not None and not k.aborting:
                k.record('rs-reset', self.__dict__.get('_sim_serial'))
    _set(BC.restart_state, '__setattr__', _rs_setattr)
    orig_maintain = P.Pool._maintain_pool

    def _maintain(self):
        k = state.K
        k.record('pass-begin')
        begin = k.steps
        hook = k.cfg.get('_on_pass_begin')
        if hook is not None:
            hook(self)
        orig_maintain(self)
        k.record('pass-end')
        hook = k.cfg.get('_on_pass_end')
        if hook is not None:
            hook(self, begin)
    _set(P.Pool, '_maintain_pool', _maintain)
    orig_repop = P.Pool._repopulate_pool

    def _repopulate(self, exitcodes):
        state.K.record('repopulate', tuple(exitcodes or ()), self._processes - len(self._pool), self._state)
        return orig_repop(self, exitcodes)
    _set(P.Pool, '_repopulate_pool', _repopulate)
    orig_create = P.Pool._create_worker_process

    def _create(self, i):
        w = orig_create(self, i)
        state.K.record('worker-registered', w.pid)
        hook = state.K.cfg.get('_on_worker_created')
        if hook is not None:
            hook(self, w)
        return w
    _set(P.Pool, '_create_worker_process', _create)

    def _on_job_ready(self, job, i, obj, inqW_fd):
        state.K.record('result-consumed', job, i)
    _set(P.Pool, 'on_job_ready', _on_job_ready)
    _set(BD.DummyProcess, 'start', _dp_start)
    _set(BD.DummyProcess, 'join', _dp_join)
    _set(BD.DummyProcess, 'is_alive', _dp_is_alive)
    _set(BC, 'os', seams.os_shim)
    _set(BC, 'sys', seams.sys_shim)
    _set(BC, 'signal', seams.signal_shim)
    _set(BC, 'monotonic', seams.monotonic)
    _set(PF, 'os', seams.os_shim)
    _set(BP, 'os', seams.os_shim)
    _set(FS, 'os', seams.os_shim)
    _set(PFS, 'os', seams.os_shim)


def setup_kernel(k):
    """Per-run: register the module globals that are private to each simulated process."""
    k.add_per_proc_global(BC, '_should_have_exited', lambda p: [False])
    k.add_per_proc_global(BP, '_current_process', lambda p: BP._current_process)
    k.add_per_proc_global(BP, '_children', lambda p: set())
    k.add_per_proc_global(_mpu, '_finalizer_registry', lambda p: {})
    import itertools
    import billiard.util as BU
    k.add_per_proc_global(BU, '_finalizer_registry', lambda p: {})
    k.add_per_proc_global(BP, '_process_counter', lambda p: itertools.count(1))
    # fresh root-side state for this run
    P.job_counter = itertools.count()
    BP._children = set()
    BP._process_counter = itertools.count(1)
    k.root.globals[(BP, '_process_counter')] = BP._process_counter
    k.root.globals[(BP, '_children')] = BP._children
    BC._should_have_exited = [False]
    k.root.globals[(BC, '_should_have_exited')] = BC._should_have_exited


def make_putlock(n):
    s = P.LaxBoundedSemaphore(n)
    s._cond = O.SimCondition(O.SimLock())
    return s


# ---------------------------------------------------------------------- spawn flavour (real _launch)
class _SimFdWriter:
    """What io.open(fd, 'wb', closefd=False) gives popen_spawn_posix: a writer onto a simulated descriptor."""

    def __init__(self, fd):
        self.fd = fd

    def write(self, data):
        k = state.K
        data = bytes(data)
        off = 0
        while off < len(data):
            off += k.write(self.fd, data[off:])
        return len(data)

    def __enter__(self):
        return self

    def __exit__(self, *exc):
        return False


class _IoShim:
    BytesIO = io.BytesIO

    @staticmethod
    def open(fd, mode='rb', closefd=True):
        return _SimFdWriter(fd)


class _SpawnShim:
    """billiard.spawn as popen_spawn_posix sees it.  The preparation data (sys.argv, sys.path, cwd, main module
    path of the *harness*) would make the number of bytes written, hence the event log, depend on how the check
    was started; the simulated interpreter has nothing to prepare, so it gets the name only."""
    import billiard.spawn as _real
    get_command_line = staticmethod(_real.get_command_line)
    get_executable = staticmethod(lambda: 'python')
    _Django_old_layout_hack__save = staticmethod(lambda: None)

    @staticmethod
    def get_preparation_data(name):
        return {'name': name}


def _sim_spawnv_passfds(path, args, passfds):
    """The fresh interpreter of the spawn start method: a new simulated process that inherits exactly the
    descriptors in `passfds`, reads the two pickles its parent writes to the pipe named on the command line
    (preparation data, process object) and runs the process object."""
    import re as _re
    k = state.K
    m = _re.search(r'pipe_handle=(\d+)', ' '.join(args))
    child_r = int(m.group(1))
    me = k.cur().proc
    simfds = [fd for fd in passfds if fd in me.fds]

    def main():
        chunks = []
        while True:
            b = k.read(child_r, 65536)
            if not b:
                break
            chunks.append(b)
        k.close(child_r)
        bio = io.BytesIO(b''.join(chunks))
        pickle.load(bio)                    # preparation data (sys.path, argv, ...): nothing to prepare here
        obj = pickle.load(bio)
        code = obj._bootstrap() if k.cfg.get('real_bootstrap') else child_bootstrap(obj)
        k.exit_now(code)
    child = k.create_process('W', main, inherit_fds=simfds)
    child.sig[int(_signal.SIGINT)] = _default_int_handler
    child.sig[int(_signal.SIGPIPE)] = _signal.SIG_IGN
    hook = k.cfg.get('_on_child')
    if hook is not None:
        hook(child, None)
    return child.pid


def install_spawn():
    """popen_spawn_posix.Popen._launch runs as it is; what it calls to reach the operating system is simulated."""
    if 'spawn' in seams._installed:
        return
    install_pool()
    seams._installed.add('spawn')
    import billiard.popen_spawn_posix as PSP
    import billiard.semaphore_tracker as ST
    _set = seams._set
    _set(PSP, 'os', seams.os_shim)
    _set(PSP, 'io', _IoShim)
    _set(PSP, 'spawnv_passfds', _sim_spawnv_passfds)
    _set(PSP, 'spawn', _SpawnShim)

    def _tracker_fd():
        k = state.K
        p = k.cur().proc
        fd = p.info.get('tracker_fd')
        if fd is None or fd not in p.fds:
            _r, fd = k.pipe()
            p.info['tracker_fd'] = fd
        return fd
    _set(ST, 'getfd', _tracker_fd)


class SimSpawnProcess(SimProcess):
    @staticmethod
    def _Popen(process_obj):
        import billiard.popen_spawn_posix as PSP
        return PSP.Popen(process_obj)


class SpawnContext(SimContext):
    Process = SimSpawnProcess


def spawn_context():
    return SpawnContext()
