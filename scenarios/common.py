"""Helpers shared by scenarios."""
import gc
import hashlib
import io
import json
import os
import pickle
import random
import sys

SRC = os.environ.get('BILLIARD_SRC', '/repo')
if SRC not in sys.path:
    sys.path.insert(0, SRC)

from simos import state                        # noqa: E402
from simos.kernel import Kernel, SimDead       # noqa: E402,F401
from simos import seams                        # noqa: E402

from billiard import context as _bctx          # noqa: E402
from billiard import reduction as _red         # noqa: E402

POLICIES = ['random', 'random', 'sticky', 'sticky', 'pct', 'fifo']


def H(*parts):
    h = hashlib.sha256(':'.join(str(p) for p in parts).encode()).digest()
    return int.from_bytes(h[:8], 'big')


class SimContext(_bctx.BaseContext):
    """A concrete context whose every primitive lands on the simulated kernel."""
    _name = 'sim'
    Process = None           # set by scenarios that start processes

    def get_context(self, method=None):
        return self

    def get_start_method(self, allow_none=False):
        return 'sim'


class _DupFd:
    def __init__(self, fd):
        self.fd = fd

    def detach(self):
        return self.fd


class SpawnCapture:
    """Plays the role of the spawning Popen while an object is pickled for a child."""
    DupFd = _DupFd

    def __init__(self):
        self.fds = []

    def duplicate_for_child(self, fd):
        self.fds.append(fd)
        return fd


def dump_for_child(obj):
    """Pickle obj the way billiard's spawn does; returns (bytes, fds to inherit)."""
    cap = SpawnCapture()
    buf = io.BytesIO()
    _bctx.set_spawning_popen(cap)
    try:
        _red.dump(obj, buf)
    finally:
        _bctx.set_spawning_popen(None)
    return buf.getvalue(), cap.fds


def new_kernel(seed, cfg, choices=None):
    gc.disable()
    rng = random.Random(H(seed, 'sched'))
    cfg = dict(cfg)
    cfg.setdefault('useed', H(seed, 'urandom'))
    k = Kernel(rng, cfg.get('policy', 'random'), choices, cfg)
    state.K = k
    return k


def wl_fingerprint(case):
    return hashlib.sha256(json.dumps(case, sort_keys=True, default=str).encode()).hexdigest()[:16]


def finish(k, case, violations, nontrivial, extra=None):
    res = {
        'violations': violations,
        'digest': k.digest(),
        'fingerprint': k.fingerprint(),
        'steps': k.steps,
        'sim_s': round(k.now - k.cfg.get('t0', 1000.0), 3),
        'end': k.end_reason,
        'faults': dict(k.faults),
        'probes': dict(k.probes),
        'nstates': len(k.states),
        'state_hashes': [hash(s) & 0xffffffffffff for s in list(k.states)[:400]],
        'nontrivial': bool(nontrivial),
        'choices': list(k.choices),
        'wl_fp': wl_fingerprint(case),
        'decisions': k.n_decisions,
        'switches': k.n_switches,
    }
    if extra:
        res.update(extra)
    return res


def V(clause, sig, detail):
    return {'clause': clause, 'sig': '%s:%s' % (clause, sig), 'detail': detail}
