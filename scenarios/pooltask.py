"""Task programs executed inside simulated pool workers.

A program is a list of instructions (JSON-able); `run_task(uid, prog)` is the picklable
function given to the pool.  Every value returned or raised carries the job's uid so that
every observation is attributable."""
import pickle as _pickle
import signal as _signal

from simos import state
from billiard.exceptions import SoftTimeLimitExceeded


class Unpicklable:
    def __init__(self, uid):
        self.uid = uid

    # whatever goes wrong while a result is being encoded is an encoding failure of that result: the kind
    # of exception varies with the job (deterministically)
    KINDS = (TypeError, ValueError, _pickle.PicklingError, RuntimeError, AttributeError, NotImplementedError)

    def __reduce__(self):
        raise self.KINDS[self.uid % len(self.KINDS)]('cannot pickle result of job %r' % (self.uid,))


class TaskError(Exception):
    pass


class TaskBaseError(BaseException):
    pass


EXC = {
    'ValueError': ValueError, 'KeyError': KeyError, 'TaskError': TaskError, 'TaskBaseError': TaskBaseError,
    'BaseException': BaseException, 'KeyboardInterrupt': KeyboardInterrupt, 'RuntimeError': RuntimeError,
    'OSError': OSError, 'StopIteration': StopIteration, 'MemoryError': MemoryError,
}


import operator as _operator

# task callables that are C functions (name -> (callable, args, exception type they raise))
BUILTINS = {'int': (int, ('abc',)), 'truediv': (_operator.truediv, (1, 0)), 'getitem': (_operator.getitem, ((), 3))}
BUILTIN_RAISES = {'int': 'ValueError', 'truediv': 'ZeroDivisionError', 'getitem': 'IndexError'}


def _recurse(n, exc, uid):
    if n <= 0:
        raise EXC[exc]('deep', uid)
    return _recurse(n - 1, exc, uid)


def _run(k, uid, prog, proc):
    for ins in prog:
        op = ins[0]
        if op == 'tick':
            for _ in range(ins[1]):
                proc.info['ticks'] = proc.info.get('ticks', 0) + 1
                k.record('tick', uid)
                k.yield_('task-tick')
        elif op == 'sleep':
            k.sleep(ins[1])
        elif op == 'until':
            # the task finishes (or does its next step) at a chosen internal instant of the parent: it parks
            # until the named event has been seen for its own job (or `limit` simulated seconds have passed)
            W = k.cfg.get('_world')
            if W is not None:
                owner = W.item_owner.get(uid, uid)
                rec = W.jobs.get(owner)
                name = '%s:%s' % (ins[1], rec.jobid if rec is not None else None)
                a = k.enter('until:' + ins[1])
                k.wait_until(a, lambda: W.flags.get(name), k.now + ins[2], 'until:' + ins[1])
                if W.flags.get(name):
                    k.fault_fired('task_step_placed_at_' + ins[1].replace('-', '_'))
        elif op == 'ret':
            return ('v', uid, ins[1])
        elif op == 'raise':
            raise EXC[ins[1]]('boom', uid)
        elif op == 'raise_exec':
            # raised by a function that was built with exec() into a fresh dict (generated code: its globals
            # have neither __file__ nor __name__)
            ns = {}
            exec('def generated_fn(exc, uid):\n    raise exc("boom", uid)\n', ns)
            ns['generated_fn'](EXC[ins[1]], uid)
        elif op == 'recurse':
            return _recurse(ins[1], ins[2], uid)
        elif op == 'try':
            try:
                r = _run(k, uid, ins[1], proc)
                if r is not None:
                    return r
            except BaseException:     # noqa  (a task's own catch-all handler)
                proc.info['in_except'] = True
                try:
                    r = _run(k, uid, ins[2], proc)
                finally:
                    proc.info['in_except'] = False
                if r is not None:
                    return r
        elif op == 'catch_soft':
            try:
                r = _run(k, uid, ins[1], proc)
                if r is not None:
                    return r
            except SoftTimeLimitExceeded:
                k.record('soft-caught', uid)
                if len(ins) > 2 and isinstance(ins[2], list):
                    # the task goes on working (cleaning up) after it caught the soft limit
                    try:
                        _run(k, uid, ins[2], proc)
                    except SoftTimeLimitExceeded:
                        k.record('soft-raised-again', uid)
                        raise
                return ('v', uid, 'soft-caught')
        elif op == 'sys_exit':
            import billiard.pool as P
            P.sys.exit(ins[1])
        elif op == 'os_exit':
            k.record('task-os-exit', uid, ins[1])
            k.exit_now(ins[1])
        elif op == 'die':
            # uncatchable death (SIGKILL / SIGSEGV-style) or a catchable signal, at this exact point
            k.record('task-die', uid, ins[1])
            k.fault_fired('in_task_signal_%d' % ins[1])
            k.post_signal(proc, ins[1], 'in-task')
            k.yield_('after-signal')
        elif op == 'ignore_term':
            # a task (or a library it uses) that makes its process deaf to the termination signal
            import billiard.pool as P
            P.signal.signal(_signal.SIGTERM, _signal.SIG_IGN)
            k.record('task-ignores-term', uid)
        elif op == 'unpicklable':
            return Unpicklable(uid)
        elif op == 'nested_unpicklable':
            return {'a': [1, (2, Unpicklable(uid))]}
        elif op == 'rss':
            proc.rss = ins[1]
        else:
            raise RuntimeError('bad instruction %r' % (ins,))
    return ('v', uid, None)


def run_task(uid, prog, _junk=None):
    k = state.K
    proc = k.cur_proc_obj()
    proc.info['executing'] = uid
    proc.info.setdefault('executed', []).append(uid)
    k.record('exec-begin', uid, proc.pid)
    try:
        r = _run(k, uid, prog, proc)
        if not proc.dead:
            k.record('exec-ret', uid, proc.pid, r if not isinstance(r, (Unpicklable, dict)) else 'unpicklable')
    except BaseException as exc:      # noqa
        if not proc.dead and type(exc).__name__ not in ('SimDead', 'SimAbort'):
            k.record('exec-exc', uid, proc.pid, type(exc).__name__)
        raise
    finally:
        if not proc.dead:
            proc.info['executing'] = None
            k.record('exec-end', uid, proc.pid)
    return r


def run_item(item):
    """map/imap function: item = [uid, prog]."""
    return run_task(item[0], item[1])


def run_star(uid, prog):
    return run_task(uid, prog)


def on_exit(pid, exitcode):
    k = state.K
    p = k.cur_proc_obj()
    if p.dead or k.aborting:
        return
    k.record('on-exit', pid, exitcode)
    p.info['on_exit'] = exitcode
