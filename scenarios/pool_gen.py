"""Workload / fault-plan generation and shrinking for S-POOL (one profile per property)."""
import copy

from .common import POLICIES

SIGKILL, SIGTERM, SIGSEGV, SIGUSR1, SIGHUP, SIGQUIT, SIGABRT, SIGINT, SIGUSR2, SIGALRM = 9, 15, 11, 10, 1, 3, 6, 2, 12, 14


class Ctx:
    def __init__(self, rng):
        self.rng = rng
        self.n = 0

    def uid(self):
        self.n += 1
        return self.n


def prog_ok(rng, maxticks=4, sleep=None):
    p = []
    t = rng.randint(0, maxticks)
    if t:
        p.append(['tick', t])
    if sleep is None:
        sleep = rng.choice([0, 0, 0.05, 0.3, 1.2])
    if sleep:
        p.append(['sleep', sleep])
    if rng.random() < 0.3:
        p.append(['tick', rng.randint(1, 2)])
    p.append(['ret', rng.randint(0, 999)])
    return p


def prog_raise(rng, base_only=False):
    exc = rng.choice(['ValueError', 'KeyError', 'TaskError', 'RuntimeError'] if base_only is False and rng.random() < 0.7
                     else ['TaskBaseError', 'BaseException', 'KeyboardInterrupt'])
    p = []
    if rng.random() < 0.5:
        p.append(['tick', rng.randint(1, 3)])
    if rng.random() < 0.25:
        p.append(['recurse', rng.choice([1, 5, 30, 130, 400]), exc])
    else:
        p.append(['raise', exc])
    return p


def prog_die(rng, sigs=None):
    """Death (or catchable signal) at a chosen tick inside the task."""
    p = []
    before = rng.randint(0, 3)
    if before:
        p.append(['tick', before])
    if rng.random() < 0.3:
        p.append(['sleep', rng.choice([0.05, 0.5])])
    r = rng.random()
    if r < 0.6:
        p.append(['die', rng.choice(sigs or [SIGKILL, SIGKILL, SIGSEGV, SIGTERM, SIGABRT, SIGHUP, SIGQUIT, SIGINT])])
    elif r < 0.85:
        p.append(['os_exit', rng.choice([0, 1, 2, 70, 155, 255])])
    else:
        p.append(['sys_exit', rng.choice([0, 1, 3])])
    p.append(['tick', 2])
    p.append(['ret', 1])
    return p


def prog_long(rng, dur):
    """A job that runs about `dur` simulated seconds in several sleeps (so that signals can land)."""
    p = []
    n = rng.randint(1, 4)
    for _ in range(n):
        p.append(['sleep', round(dur / n, 3)])
        if rng.random() < 0.5:
            p.append(['tick', 1])
    p.append(['ret', rng.randint(0, 999)])
    return p


def base_case(rng, prop):
    return {
        'prop': prop,
        'policy': rng.choice(POLICIES),
        'pipe_cap': rng.choice([512, 4096, 65536, 65536]),
        'short_io': rng.random() < 0.3,
        'sleep_jitter': 0.0,
        'pool': {'processes': rng.randint(1, 3), 'threads': True},
        'users': [[]],
        'ext_faults': [],
        'epilogue': 'close_join',
    }


def add_applies(rng, c, ops, n, mk=None, opts=None):
    for _ in range(n):
        uid = c.uid()
        prog = (mk or (lambda: prog_ok(rng)))()
        ops.append(['apply', uid, prog, dict(opts or {})])
        if rng.random() < 0.2:
            ops.append(['sleep', rng.choice([0.01, 0.2, 1.0])])


def add_map(rng, c, ops, kind=None, n=None, fail=0.0, chunks=None):
    kind = kind or rng.choice(['map', 'map', 'starmap', 'imap', 'imap_unordered'])
    n = rng.choice([0, 1, 2, 3, 5, 7, 8, 12, 24]) if n is None else n
    items = []
    for _ in range(n):
        iu = c.uid()
        if rng.random() < fail:
            items.append([iu, prog_raise(rng)])
        else:
            items.append([iu, prog_ok(rng, maxticks=2, sleep=rng.choice([0, 0, 0.05, 0.3]))])
    cs = chunks if chunks is not None else rng.choice([None, 1, 1, 2, 3, 4, 6])
    if kind in ('imap', 'imap_unordered') and cs is None:
        cs = 1
    uid = c.uid()
    ops.append(['map', uid, items, cs, kind])
    return uid


# ---------------------------------------------------------------------- profiles
def gen_C02(rng, tier):
    c = Ctx(rng)
    case = base_case(rng, 'C02')
    case['pool']['processes'] = rng.randint(1, 4)
    ops = case['users'][0]
    for _ in range(rng.randint(1, 3)):
        r = rng.random()
        if r < 0.75:
            add_map(rng, c, ops, fail=rng.choice([0, 0, 0.15, 0.4]))
        else:
            add_applies(rng, c, ops, rng.randint(1, 3),
                        mk=lambda: prog_raise(rng) if rng.random() < 0.4 else prog_ok(rng))
    return case


def gen_C07(rng, tier):
    c = Ctx(rng)
    case = base_case(rng, 'C07')
    pc = case['pool']
    pc['processes'] = rng.randint(1, 4)
    pc['maxtasksperchild'] = rng.choice([None, None, 1, 2, 3, 5])
    pc['threads'] = rng.random() < 0.85
    ops = case['users'][0]
    for _ in range(rng.randint(1, 4)):
        if rng.random() < 0.5:
            add_applies(rng, c, ops, rng.randint(1, 4))
        elif pc['threads']:
            add_map(rng, c, ops)
    ops.append(['sleep', rng.choice([0, 0, 0.01, 0.3, 1.0, 3.0])])
    ops.append(['close'])
    if rng.random() < 0.3:
        ops.append(['apply', c.uid(), prog_ok(rng), {'after_close': True}])
    ops.append(['join'])
    case['epilogue'] = 'after_join'
    return case


def gen_C01(rng, tier):
    c = Ctx(rng)
    case = base_case(rng, 'C01')
    pc = case['pool']
    pc['processes'] = rng.randint(1, 4)
    pc['lost_worker_timeout'] = rng.choice([1.0, 2.0, 10.0])
    pc['maxtasksperchild'] = rng.choice([None, None, None, 2, 3])
    if rng.random() < 0.3:
        pc['timeout'] = rng.choice([1.0, 3.0])
    ops = case['users'][0]
    nfault = 0
    for _ in range(rng.randint(2, 6)):
        r = rng.random()
        if r < 0.45:
            add_applies(rng, c, ops, 1)
        elif r < 0.6:
            add_applies(rng, c, ops, 1, mk=lambda: prog_raise(rng))
        elif r < 0.78 and nfault < 3:
            nfault += 1
            add_applies(rng, c, ops, 1, mk=lambda: prog_die(rng))
        elif r < 0.84:
            add_applies(rng, c, ops, 1, mk=lambda: [['unpicklable']])
        elif r < 0.9:
            add_applies(rng, c, ops, 1, opts={'bad_arg': True})
        elif pc.get('timeout') is None:
            add_map(rng, c, ops, n=rng.choice([1, 3, 6]), fail=rng.choice([0, 0.2]))
        else:
            add_applies(rng, c, ops, 1, mk=lambda: prog_long(rng, rng.choice([0.5, 2.0, 4.5])))
        if rng.random() < 0.1 and len(ops) > 0 and ops[-1][0] == 'apply':
            ops.append(['discard', ops[-1][1]])
    if rng.random() < 0.25:
        u2 = []
        add_applies(rng, c, u2, rng.randint(1, 2))
        case['users'].append(u2)
    return case


PROFILES = {'C01': gen_C01, 'C02': gen_C02, 'C07': gen_C07}


def generate(rng, tier, prop):
    return PROFILES[prop](rng, tier)


# ---------------------------------------------------------------------- shrinking
def _simplify_prog(prog):
    if len(prog) > 1:
        for i in range(len(prog) - 1):
            yield prog[:i] + prog[i + 1:]
    for i, ins in enumerate(prog):
        if ins[0] == 'tick' and ins[1] > 1:
            yield prog[:i] + [['tick', 1]] + prog[i + 1:]
        if ins[0] == 'sleep' and ins[1] > 0.05:
            yield prog[:i] + [['sleep', 0.05]] + prog[i + 1:]


def shrink(case):
    # drop a user op
    for ui, ops in enumerate(case['users']):
        for i in range(len(ops)):
            c = copy.deepcopy(case)
            del c['users'][ui][i]
            yield c
    if len(case['users']) > 1:
        c = copy.deepcopy(case)
        c['users'].pop()
        yield c
    # drop external faults
    for i in range(len(case.get('ext_faults', []))):
        c = copy.deepcopy(case)
        del c['ext_faults'][i]
        yield c
    # shrink map items / simplify programs
    for ui, ops in enumerate(case['users']):
        for i, op in enumerate(ops):
            if op[0] == 'map' and len(op[2]) > 0:
                for j in range(len(op[2])):
                    c = copy.deepcopy(case)
                    del c['users'][ui][i][2][j]
                    yield c
                for j, it in enumerate(op[2]):
                    for sp in _simplify_prog(it[1]):
                        c = copy.deepcopy(case)
                        c['users'][ui][i][2][j][1] = sp
                        yield c
            if op[0] == 'apply':
                for sp in _simplify_prog(op[2]):
                    c = copy.deepcopy(case)
                    c['users'][ui][i][2] = sp
                    yield c
    pc = case['pool']
    if pc['processes'] > 1:
        c = copy.deepcopy(case)
        c['pool']['processes'] -= 1
        yield c
    for key in ('maxtasksperchild', 'timeout', 'soft_timeout', 'max_memory_per_child', 'max_restarts'):
        if pc.get(key) is not None:
            c = copy.deepcopy(case)
            c['pool'][key] = None
            yield c
    for key, val in (('short_io', False), ('pipe_cap', 65536), ('sleep_jitter', 0.0)):
        if case.get(key) != val:
            c = copy.deepcopy(case)
            c[key] = val
            yield c
