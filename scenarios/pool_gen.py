"""Workload / fault-plan generation and shrinking for S-POOL (one profile per property)."""
import copy

from .common import POLICIES

SIGKILL, SIGTERM, SIGSEGV, SIGUSR1, SIGHUP, SIGQUIT, SIGABRT, SIGINT, SIGUSR2, SIGALRM = 9, 15, 11, 10, 1, 3, 6, 2, 12, 14
EX_RECYCLE = 155


class Ctx:
    def __init__(self, rng):
        self.rng = rng
        self.n = 0

    def uid(self):
        self.n += 1
        return self.n


# ---------------------------------------------------------------------- task programs
def prog_ok(rng, maxticks=4, sleep=None):
    p = []
    t = rng.randint(0, maxticks)
    if t:
        p.append(['tick', t])
    if sleep is None:
        sleep = rng.choice([0, 0, 0.05, 0.3, 1.2])
    if sleep:
        p.append(['sleep', sleep])
    if rng.random() < 0.3:
        p.append(['tick', rng.randint(1, 2)])
    p.append(['ret', rng.randint(0, 999)])
    return p


def prog_raise(rng, deep=False):
    if rng.random() < 0.7:
        exc = rng.choice(['ValueError', 'KeyError', 'TaskError', 'RuntimeError'])
    else:
        exc = rng.choice(['TaskBaseError', 'BaseException', 'KeyboardInterrupt'])
    p = []
    if rng.random() < 0.5:
        p.append(['tick', rng.randint(1, 3)])
    r = rng.random()
    if deep and r < 0.5:
        p.append(['recurse', rng.choice([1, 5, 100, 123, 124, 125, 126, 127, 130, 400, 700, 1500]), exc])
    elif r < 0.25:
        p.append(['recurse', rng.choice([1, 5, 30, 130, 400]), exc])
    elif r < 0.35:
        p.append(['try', [['raise', 'ValueError']], [['tick', 2], ['raise', exc]]])
    else:
        p.append(['raise', exc])
    return p


def prog_die(rng, sigs=None, in_except=False):
    """Death (or catchable signal) at a chosen tick inside the task."""
    p = []
    before = rng.randint(0, 3)
    if before:
        p.append(['tick', before])
    if rng.random() < 0.3:
        p.append(['sleep', rng.choice([0.05, 0.5])])
    r = rng.random()
    if r < 0.6:
        # (40, 63: real-time signals, which have no name in the signal module; 7 = SIGBUS)
        d = ['die', rng.choice(sigs or [SIGKILL, SIGKILL, SIGSEGV, SIGTERM, SIGABRT, SIGHUP, SIGQUIT, 40, 63, 7])]
    elif r < 0.85:
        d = ['os_exit', rng.choice([0, 1, 2, 70, 155, 255])]
    else:
        d = ['os_exit', rng.choice([3, 15])]
    if in_except:
        p.append(['try', [['raise', 'ValueError']], [['tick', 1], d, ['tick', 2], ['ret', 2]]])
    else:
        p.append(d)
    p.append(['tick', 2])
    p.append(['ret', 1])
    return p


def prog_long(rng, dur, ticks=True):
    """A job that runs about `dur` simulated seconds in several sleeps (so that signals can land)."""
    p = []
    n = rng.randint(1, 4)
    for _ in range(n):
        p.append(['sleep', round(dur / n, 3)])
        if ticks and rng.random() < 0.5:
            p.append(['tick', 1])
    p.append(['ret', rng.randint(0, 999)])
    return p


def base_case(rng, prop):
    return {
        'prop': prop,
        'policy': rng.choice(POLICIES),
        'pipe_cap': rng.choice([512, 4096, 65536, 65536]),
        'short_io': rng.random() < 0.3,
        'sleep_jitter': 0.0,
        'pool': {'processes': rng.randint(1, 3), 'threads': True},
        'users': [[]],
        'ext_faults': [],
        'epilogue': 'close_join',
    }


def add_applies(rng, c, ops, n, mk=None, opts=None):
    out = []
    for _ in range(n):
        uid = c.uid()
        prog = (mk or (lambda: prog_ok(rng)))()
        ops.append(['apply', uid, prog, dict(opts or {})])
        out.append(uid)
        if rng.random() < 0.2:
            ops.append(['sleep', rng.choice([0.01, 0.2, 1.0])])
    return out


def add_map(rng, c, ops, kind=None, n=None, fail=0.0, chunks=None, mkitem=None):
    kind = kind or rng.choice(['map', 'map', 'starmap', 'imap', 'imap_unordered'])
    n = rng.choice([0, 1, 2, 3, 5, 7, 8, 12, 24]) if n is None else n
    items = []
    for _ in range(n):
        iu = c.uid()
        if mkitem is not None:
            items.append([iu, mkitem()])
        elif rng.random() < fail:
            items.append([iu, prog_raise(rng)])
        else:
            items.append([iu, prog_ok(rng, maxticks=2, sleep=rng.choice([0, 0, 0.05, 0.3]))])
    cs = chunks if chunks is not None else rng.choice([None, 1, 1, 2, 3, 4, 6])
    if kind in ('imap', 'imap_unordered') and cs is None:
        cs = 1
    uid = c.uid()
    ops.append(['map', uid, items, cs, kind])
    return uid


# ---------------------------------------------------------------------- profiles
def gen_C01(rng, tier):
    c = Ctx(rng)
    case = base_case(rng, 'C01')
    pc = case['pool']
    pc['processes'] = rng.randint(1, 4)
    pc['lost_worker_timeout'] = rng.choice([1.0, 2.0, 10.0])
    pc['maxtasksperchild'] = rng.choice([None, None, None, 2, 3])
    if rng.random() < 0.3:
        pc['timeout'] = rng.choice([1.0, 3.0])
    ops = case['users'][0]
    nfault = 0
    for _ in range(rng.randint(2, 6)):
        r = rng.random()
        if r < 0.45:
            add_applies(rng, c, ops, 1)
        elif r < 0.6:
            add_applies(rng, c, ops, 1, mk=lambda: prog_raise(rng))
        elif r < 0.78 and nfault < 3:
            nfault += 1
            add_applies(rng, c, ops, 1, mk=lambda: prog_die(rng))
        elif r < 0.84:
            add_applies(rng, c, ops, 1, mk=lambda: [['unpicklable']])
        elif r < 0.9:
            add_applies(rng, c, ops, 1, opts={'bad_arg': True})
        elif pc.get('timeout') is None:
            add_map(rng, c, ops, n=rng.choice([1, 3, 6]), fail=rng.choice([0, 0.2]))
        elif rng.random() < 0.4:
            # the result arrives at the very moment the scanner is failing the job for its time limit
            add_applies(rng, c, ops, 1, mk=lambda: [['until', 'hard-intent', 12.0], ['ret', rng.randint(0, 99)]])
        else:
            add_applies(rng, c, ops, 1, mk=lambda: prog_long(rng, rng.choice([0.5, 2.0, 4.5])))
        if rng.random() < 0.1 and len(ops) > 0 and ops[-1][0] == 'apply':
            ops.append(['discard', ops[-1][1]])
    if rng.random() < 0.25:
        u2 = []
        add_applies(rng, c, u2, rng.randint(1, 2))
        case['users'].append(u2)
    if pc.get('timeout') is not None and rng.random() < 0.6:
        for _ in range(rng.randint(1, 2)):
            add_applies(rng, c, ops, 1, mk=lambda: [['until', 'hard-intent', 12.0], ['ret', rng.randint(0, 99)]])
    if rng.random() < 0.15 and pc.get('timeout') is None:
        # terminate_job() on one job while another job's worker dies on its own at about the same time (both
        # exits seen by one supervision pass): each failure must stay with its own job
        # (these are the first jobs, on idle workers, so that they really run side by side)
        pc['processes'] = max(pc['processes'], 3)
        pc['maxtasksperchild'] = None
        s = rng.choice([0.2, 0.5, 0.9])
        pre = []
        ua = add_applies(rng, c, pre, 1, mk=lambda: prog_long(rng, 3.0))[0]
        add_applies(rng, c, pre, 1, mk=lambda: [['sleep', s], ['die', rng.choice([SIGKILL, SIGSEGV])], ['tick', 1],
                                                ['ret', 1]])
        if rng.random() < 0.5:
            add_applies(rng, c, pre, 1, mk=lambda: [['sleep', s], ['ret', 5], ])
        pre = [o for o in pre if o[0] != 'sleep']
        pre.append(['wait_accepted', ua, 5.0])
        pre.append(['sleep', max(0.0, round(s + rng.choice([-0.15, -0.05, 0.0, 0.1, 0.3]), 3))])
        pre.append(['terminate_job', ua])
        ops[0:0] = pre
    if nfault and len(case['users']) == 1 and rng.random() < 0.2:
        # close() while a loss is still inside its grace period (only the shutdown path is left to report it)
        pc['maxtasksperchild'] = None
        pc['lost_worker_timeout'] = rng.choice([1.0, 2.0])
        ops.append(['close'])
    elif rng.random() < 0.2:
        # message duplication: ACK / READY messages some worker already sent arrive a second time
        if pc.get('timeout') is None and rng.random() < 0.7:
            # (first, so that its parts are in progress while the duplicates arrive)
            pre = []
            add_map(rng, c, pre, kind=rng.choice(['map', 'imap', 'imap_unordered']), n=rng.choice([4, 6, 9]),
                    chunks=rng.choice([1, 2]), fail=rng.choice([0, 0, 0.3]))
            ops[0:0] = pre
        case['users'].append([['dup', rng.randint(1, 5), rng.choice([0.001, 0.01, 0.1, 0.3])]])
    return case


def gen_C02(rng, tier):
    c = Ctx(rng)
    case = base_case(rng, 'C02')
    case['pool']['processes'] = rng.randint(1, 4)
    ops = case['users'][0]
    for _ in range(rng.randint(1, 3)):
        r = rng.random()
        if r < 0.75:
            add_map(rng, c, ops, fail=rng.choice([0, 0, 0.15, 0.4]))
        else:
            # (deep: the function raises from under hundreds of frames, up to beyond the recursion limit)
            add_applies(rng, c, ops, rng.randint(1, 3),
                        mk=lambda: prog_raise(rng, deep=rng.random() < 0.4) if rng.random() < 0.4 else prog_ok(rng))
    if rng.random() < 0.15:
        # an empty input after the pool has already processed something
        add_map(rng, c, ops, kind=rng.choice(['imap', 'imap_unordered', 'map']), n=0)
    elif rng.random() < 0.2:
        # more chunks than workers, one chunk fails at the very instant another one succeeds, later chunks still
        # waiting to be accepted: the order of the two result messages and the next accept is the scheduler's
        case['pool']['processes'] = 2
        t = rng.choice([0.05, 0.3])
        st = {'i': 0}
        bad_at = rng.choice([0, 1])

        def mk():
            i = st['i']
            st['i'] += 1
            if i == bad_at:
                return [['sleep', t], ['raise', rng.choice(['ValueError', 'TaskError'])]]
            if i < 2:
                return [['sleep', t], ['ret', rng.randint(0, 999)]]
            return prog_ok(rng, maxticks=1, sleep=rng.choice([0, 0.05]))
        add_map(rng, c, ops, kind=rng.choice(['map', 'map', 'starmap']), n=rng.randint(3, 6), chunks=1, mkitem=mk)
    return case


def gen_C03(rng, tier):
    c = Ctx(rng)
    case = base_case(rng, 'C03')
    pc = case['pool']
    pc['processes'] = rng.randint(1, 3)
    pc['maxtasksperchild'] = rng.choice([None, 1, 2, 3, 5])
    pc['synack'] = rng.random() < 0.5
    ops = case['users'][0]
    for _ in range(rng.randint(2, 7)):
        r = rng.random()
        if r < 0.5:
            uids = add_applies(rng, c, ops, 1)
        elif r < 0.7:
            uids = add_applies(rng, c, ops, 1, mk=lambda: prog_raise(rng))
        elif r < 0.8:
            uids = add_applies(rng, c, ops, 1, mk=lambda: [['unpicklable']])
        elif not pc['synack']:
            add_map(rng, c, ops, n=rng.choice([1, 2, 4]), fail=rng.choice([0, 0.3]))
            uids = []
        else:
            uids = add_applies(rng, c, ops, 1)
        if pc['synack'] and uids and rng.random() < 0.4:
            ops.append(['cancel', uids[0]])
    if pc['synack'] and rng.random() < 0.25:
        # the parent answers one accept message more than a minute late (busy event loop): the worker must keep
        # waiting for exactly that answer
        case['syn_delay'] = [rng.randint(0, 3), rng.choice([62.0, 70.0])]
    if pc['synack'] and rng.random() < 0.5:
        case['synq_poll'] = True        # syn queue of the polled kind (no get_payload)
    return case


def gen_C04(rng, tier):
    c = Ctx(rng)
    case = base_case(rng, 'C04')
    pc = case['pool']
    pc['processes'] = rng.randint(1, 4)
    pc['lost_worker_timeout'] = rng.choice([1.0, 2.0, 5.0, 10.0])
    pc['maxtasksperchild'] = rng.choice([None, None, None, 2, 4])
    ops = case['users'][0]
    if rng.random() < 0.12:
        # a worker publishes the result of a part, dies in its next job and is reaped before the parent has
        # consumed that result (the result handler is inside a slow callback of some other job): nothing of
        # the multi-part job was lost, and one of its parts runs on past the grace period
        # skeleton for P workers: part 0 (long) -> w1, part 1 (0.3 s) -> w2, a short job with a slow callback
        # -> w3, fillers for the rest and for w3 when it is free again, then the job that kills the next free
        # worker, which is w2 just after it wrote the result of part 1 while the result handler sits in the callback
        P = rng.choice([3, 4])
        pc['processes'] = P
        pc['threads'] = True
        pc['maxtasksperchild'] = None
        # (the callback returns well within the grace period: a result handler that is kept away from the pipe
        # for longer than that cannot tell a published result from a lost one, which is what the period is for)
        pc['lost_worker_timeout'] = rng.choice([3.0, 5.0])
        case['cb_delay'] = rng.choice([0.4, 1.2])
        st0 = {'i': 0}

        def mk0():
            i = st0['i']
            st0['i'] += 1
            return [['sleep', rng.choice([11.0, 13.5]) if i == 0 else 0.3], ['ret', rng.randint(0, 999)]]
        add_map(rng, c, ops, kind=rng.choice(['map', 'imap', 'imap_unordered']), n=2, mkitem=mk0, chunks=1)
        ops.append(['apply', c.uid(), [['sleep', rng.choice([0.05, 0.1])], ['ret', rng.randint(0, 999)]], {}])
        for _ in range(P - 2):
            ops.append(['apply', c.uid(), [['sleep', rng.choice([0.6, 1.0])], ['ret', rng.randint(0, 999)]], {}])
        add_applies(rng, c, ops, 1, mk=lambda: prog_die(rng))
        if rng.random() < 0.5:
            add_applies(rng, c, ops, rng.randint(1, 2))
        return case
    ndie = 0
    for _ in range(rng.randint(1, 5)):
        r = rng.random()
        if r < 0.35 or ndie >= 3:
            add_applies(rng, c, ops, 1, mk=lambda: prog_ok(rng, sleep=rng.choice([0, 0.3, 1.2, 3.0])))
        elif r < 0.65:
            ndie += 1
            add_applies(rng, c, ops, 1, mk=lambda: prog_die(rng, in_except=rng.random() < 0.2))
        elif r < 0.8:
            ndie += 1
            kind = rng.choice(['map', 'starmap', 'imap', 'imap_unordered'])
            n = rng.choice([1, 2, 3, 5])
            dpos = rng.choice([0, rng.randrange(n)])
            st = {'i': 0}
            # some parts still running when the loss is reported (the lost-worker timeout is 1-10 s)
            slow = rng.choice([[0, 0.05, 0.3], [0, 0.3, 1.6, 3.5]])
            early = None
            if n > 1 and rng.random() < 0.3:
                # the lost part is not the next one to be delivered: an earlier part is still running when the
                # loss is reported (10 s after the death for parts of a map)
                dpos = rng.randrange(1, n)
                early = rng.randrange(dpos)

            def mk():
                i = st['i']
                st['i'] += 1
                if i == early:
                    return prog_ok(rng, maxticks=2, sleep=rng.choice([11.0, 13.5]))
                return prog_die(rng) if i == dpos else prog_ok(rng, maxticks=2, sleep=rng.choice(slow))
            add_map(rng, c, ops, kind=kind, n=n, mkitem=mk, chunks=rng.choice([1, 1, 2, None]))
        elif pc['maxtasksperchild'] and pc['processes'] > 1 and rng.random() < 0.6:
            # nobody dies: workers that finished chunks of a map leave on schedule while one part of it keeps
            # running past the 10 s after which a loss would be reported
            n = rng.choice([4, 6, 9])
            st2 = {'i': 0, 'slow': rng.randrange(n)}

            def mk2():
                i = st2['i']
                st2['i'] += 1
                return prog_ok(rng, maxticks=2, sleep=rng.choice([11.0, 13.5]) if i == st2['slow']
                               else rng.choice([0, 0.05, 0.3]))
            add_map(rng, c, ops, n=n, mkitem=mk2, chunks=rng.choice([1, 2, 2, 3]))
        else:
            add_map(rng, c, ops, n=rng.choice([2, 4, 8]))
    if rng.random() < 0.3:
        u2 = []
        add_applies(rng, c, u2, rng.randint(1, 2))
        case['users'].append(u2)
    elif rng.random() < 0.3:
        # close() while a loss is still inside its grace period: the remaining workers leave, and the job must
        # still be failed once the period is over (nobody but the shutdown path is left to do it)
        pc['maxtasksperchild'] = None
        pc['lost_worker_timeout'] = rng.choice([1.0, 2.0, 3.0])
        ops.append(['sleep', rng.choice([0, 0.1, 0.6])])
        ops.append(['close'])
    return case


def gen_C05(rng, tier):
    c = Ctx(rng)
    case = base_case(rng, 'C05')
    pc = case['pool']
    pc['processes'] = rng.choice([1, 1, 2, 3, 4])
    pc['group_leaders'] = rng.random() < 0.25
    pool_t = rng.choice([None, 1.0, 2.0, 3.5])
    pc['timeout'] = pool_t
    pc['enable_timeouts'] = True
    pc['lost_worker_timeout'] = rng.choice([1.0, 10.0])
    ops = case['users'][0]
    if rng.random() < 0.25:
        # a nearly-late job next to an overdue one: the scan that enforces the overdue job's limit is busy for
        # a while (it waits for that worker to die); meanwhile the other job finishes just inside its own limit
        # and the limit elapses on the clock before the same scan gets to it
        pc['processes'] = rng.choice([2, 3])
        ops.append(['sleep', round(rng.random(), 2)])
        L = rng.choice([0.6, 1.2, 2.0])
        add_applies(rng, c, ops, 1, mk=lambda: prog_long(rng, L + rng.choice([0.8, 2.0])), opts={'timeout': L})
        for _ in range(rng.randint(1, 2)):
            x = round(L + rng.choice([0.05, 0.12, 0.2, 0.3, 0.45, 0.7]), 3)
            add_applies(rng, c, ops, 1, mk=lambda: prog_long(rng, x - rng.choice([0.03, 0.06, 0.1])),
                        opts={'timeout': x})
        while ops and ops[-1][0] == 'sleep':
            ops.pop()
    for _ in range(rng.randint(1, 5)):
        r = rng.random()
        own = rng.choice([None, None, 0.6, 1.5, 3.0])
        lim = own or pool_t
        if r < 0.7:
            if lim:
                dur = max(0.05, lim + rng.choice([-2.0, -1.0, -0.3, -0.05, 0.05, 0.3, 1.0, 2.0, 5.0]))
            else:
                dur = rng.choice([0.1, 1.0, 4.0])
            opts = {}
            if own:
                opts['timeout'] = own
            prog = prog_long(rng, dur)
            if lim and dur > lim and rng.random() < 0.25:
                # the task made its process deaf to the termination signal: only SIGKILL ends it
                prog = [['ignore_term']] + prog
            elif lim and rng.random() < 0.12:
                # the result arrives at the very moment the scanner is failing the job
                prog = [['until', 'hard-intent', lim + 4.0], ['ret', rng.randint(0, 99)]]
            elif lim and rng.random() < 0.3:
                # a soft limit before the hard one, in a task that catches it and goes on: the hard limit
                # must still be enforced
                opts['soft_timeout'] = round(lim * rng.choice([0.3, 0.6]), 3)
                prog = [['catch_soft', prog[:-1], prog_long(rng, rng.choice([0.5, 2.0, 5.0]))[:-1]], prog[-1]]
            add_applies(rng, c, ops, 1, mk=lambda: prog, opts=opts)
        elif r < 0.85:
            add_map(rng, c, ops, n=rng.choice([1, 3, 6]),
                    mkitem=lambda: prog_ok(rng, maxticks=1, sleep=rng.choice([0.05, 0.5, 1.5])))
        else:
            add_applies(rng, c, ops, 1)
    # jobs submitted after the limits fired must still be served
    ops.append(['sleep', rng.choice([0.5, 3.0, 6.0])])
    add_applies(rng, c, ops, rng.randint(1, 2), mk=lambda: prog_ok(rng, sleep=0.05))
    if rng.random() < 0.15:
        # the enforcing thread loses the processor between two lines of the TERM / wait / KILL sequence, for about
        # two supervision periods: the supervisor may reap the worker (and close its handle) in between
        case['th_preempt'] = rng.choice([0.15, 0.25])
    return case


def gen_C06(rng, tier):
    c = Ctx(rng)
    case = base_case(rng, 'C06')
    pc = case['pool']
    pc['processes'] = rng.randint(1, 3)
    pool_s = rng.choice([None, 0.5, 1.5])
    pool_h = rng.choice([None, None, 4.0, 8.0])
    pc['soft_timeout'] = pool_s
    pc['timeout'] = pool_h
    pc['enable_timeouts'] = True
    ops = case['users'][0]
    for _ in range(rng.randint(1, 4)):
        own_s = rng.choice([None, None, 0.4, 1.0, 2.5])
        own_h = rng.choice([None, None, None, 3.0, 6.0])
        soft = own_s or pool_s
        dur = (soft or 1.0) + rng.choice([-0.3, 0.2, 1.2, 2.5, 4.5])
        dur = max(0.05, dur)
        body = prog_long(rng, dur)
        r = rng.random()
        if r < 0.25:
            prog = [['catch_soft', body[:-1], 'caught'], body[-1]]
        elif r < 0.55:
            # catches the soft limit and keeps working for a while (several more scans go by)
            prog = [['catch_soft', body[:-1], prog_long(rng, rng.choice([0.6, 1.5, 3.2]))[:-1]], body[-1]]
        else:
            prog = body
        opts = {}
        if own_s:
            opts['soft_timeout'] = own_s
        if own_h:
            opts['timeout'] = own_h
        add_applies(rng, c, ops, 1, mk=lambda: prog, opts=opts)
        if rng.random() < 0.3:
            add_applies(rng, c, ops, 1)
    if rng.random() < 0.3:
        # slow result callbacks: scans go by while the result handler is inside a job's callback
        case['cb_delay'] = rng.choice([0.4, 1.2, 2.6])
    elif rng.random() < 0.3:
        # close() while jobs are still running into their limits: the shutdown path of the result handler runs
        # side by side with the scanner
        ops.append(['sleep', rng.choice([0, 0.2, 0.8])])
        ops.append(['close'])
    return case


def gen_C07(rng, tier):
    c = Ctx(rng)
    case = base_case(rng, 'C07')
    pc = case['pool']
    pc['processes'] = rng.randint(1, 4)
    pc['maxtasksperchild'] = rng.choice([None, None, 1, 2, 3, 5])
    pc['threads'] = rng.random() < 0.85
    ops = case['users'][0]
    for _ in range(rng.randint(1, 4)):
        if rng.random() < 0.5:
            add_applies(rng, c, ops, rng.randint(1, 4))
        elif pc['threads']:
            add_map(rng, c, ops, fail=rng.choice([0, 0, 0.2]))
    if pc['threads'] and rng.random() < 0.2:
        # close() placed in the middle of a supervision pass that replaces several workers at once
        pc['processes'] = rng.randint(2, 4)
        pc['maxtasksperchild'] = 1
        add_applies(rng, c, ops, pc['processes'], mk=lambda: prog_ok(rng, maxticks=1, sleep=0.05))
        ops.append(['at', 'mid-repopulate', 5.0])
    else:
        ops.append(['sleep', rng.choice([0, 0, 0.01, 0.3, 1.0, 3.0])])
    ops.append(['close'])
    if rng.random() < 0.3:
        ops.append(['apply', c.uid(), prog_ok(rng), {'after_close': True}])
    elif pc['threads'] and rng.random() < 0.3:
        # every way of offering work is refused after close()
        add_map(rng, c, ops, kind=rng.choice(['map', 'starmap', 'imap', 'imap_unordered']), n=rng.choice([1, 2, 4]),
                chunks=rng.choice([None, 1, 2]))
    ops.append(['join'])
    case['epilogue'] = 'after_join'
    return case


def gen_C08(rng, tier):
    c = Ctx(rng)
    case = base_case(rng, 'C08')
    pc = case['pool']
    pc['processes'] = rng.randint(1, 4)
    pc['threads'] = rng.random() < 0.8
    pc['maxtasksperchild'] = rng.choice([None, None, None, 3])
    ops = case['users'][0]
    uids = []
    for _ in range(rng.randint(0, 5)):
        r = rng.random()
        if r < 0.6:
            uids += add_applies(rng, c, ops, 1, mk=lambda: prog_long(rng, rng.choice([0.05, 0.5, 2.0, 6.0])))
        elif r < 0.7:
            uids += add_applies(rng, c, ops, 1, mk=lambda: [['try', [['raise', 'ValueError']],
                                                             [['tick', 2], ['sleep', rng.choice([0.5, 3.0])],
                                                              ['tick', 2], ['ret', 7]]]])
        elif r < 0.8:
            # a task with a catch-all handler that turns whatever interrupts it into its own exception (or
            # swallows it and returns): the termination request must still take effect
            uids += add_applies(rng, c, ops, 1, mk=lambda: [['try', prog_long(rng, rng.choice([0.5, 2.0, 6.0]))[:-1],
                                                             [rng.choice([['raise', 'TaskError'], ['ret', 9],
                                                                          ['raise', 'TaskBaseError']])]],
                                                            ['ret', 3]])
        elif pc['threads']:
            add_map(rng, c, ops, n=rng.choice([2, 5, 9]),
                    mkitem=lambda: prog_ok(rng, maxticks=2, sleep=rng.choice([0.05, 0.5])))
        else:
            uids += add_applies(rng, c, ops, 1)
    how = rng.choice(['terminate', 'terminate', 'terminate', 'terminate_twice', 'drop', 'with', 'terminate_job',
                      'operator'])
    if pc['threads'] and rng.random() < 0.15:
        # terminate() placed in the middle of a supervision pass that is adding several workers
        ops.append(['grow', rng.randint(2, 3)])
        ops.append(['at', 'mid-repopulate', 5.0])
    else:
        ops.append(['sleep', rng.choice([0, 0, 0.01, 0.1, 0.5, 1.0, 2.5])])
    if how == 'terminate_job' and rng.random() < 0.4:
        # a soft revoke (terminate_job with the soft-limit signal) that the task survives, then terminate()
        u = add_applies(rng, c, ops, 1, mk=lambda: [['catch_soft', prog_long(rng, 4.0)[:-1],
                                                     prog_long(rng, rng.choice([3.0, 8.0]))[:-1]], ['ret', 4]])[0]
        ops.append(['wait_accepted', u, 5.0])
        ops.append(['sleep', 0.1])
        ops.append(['terminate_job', u, SIGUSR1])
        ops.append(['sleep', rng.choice([0.1, 1.0])])
        how = 'terminate'
    elif how == 'terminate_job' and pc['threads'] and rng.random() < 0.4:
        # terminate_job() on a worker that is running a part of a map / imap job
        u = add_map(rng, c, ops, kind=rng.choice(['map', 'imap', 'imap_unordered']), n=rng.choice([2, 3, 5]), chunks=1,
                    mkitem=lambda: prog_ok(rng, maxticks=2, sleep=rng.choice([0.5, 2.0])))
        ops.append(['sleep', rng.choice([0.1, 0.3])])
        ops.append(['terminate_job', u])
        ops.append(['sleep', rng.choice([0.1, 1.0])])
        how = 'terminate'
    elif how == 'terminate_job' and uids:
        u = rng.choice(uids)
        ops.append(['wait_accepted', u, 5.0])
        ops.append(['terminate_job', u])
        ops.append(['sleep', rng.choice([0.1, 1.0])])
        how = 'terminate'
    if pc['threads'] and rng.random() < 0.3:
        # results pile up behind slow callbacks and a small pipe: termination signals find workers inside the
        # sending of a result
        case['cb_delay'] = rng.choice([0.4, 1.2])
        case['pipe_cap'] = 512
        burst = []
        add_applies(rng, c, burst, rng.randint(6, 12), mk=lambda: [['ret', rng.randint(0, 9)]])
        ops[0:0] = [o for o in burst if o[0] != 'sleep']
    if how == 'operator':
        case['ext_faults'].append({'kind': 'signal', 'when': rng.choice(['busy', 'busy', 'idle', 'any']),
                                   'sig': rng.choice([SIGTERM, SIGTERM, SIGHUP, SIGQUIT]),
                                   'after': rng.choice([0.0, 0.2, 1.0])})
        ops.append(['sleep', rng.choice([1.0, 3.0])])
        how = 'terminate'
    case['terminate_how'] = how
    case['epilogue'] = 'terminate_only'
    return case


def gen_C09(rng, tier):
    c = Ctx(rng)
    case = base_case(rng, 'C09')
    pc = case['pool']
    pc['processes'] = rng.randint(1, 4)
    pc['maxtasksperchild'] = rng.choice([None, 1, 2, 3, 5])
    if rng.random() < 0.3:
        pc['max_memory_per_child'] = 5000
    pc['lost_worker_timeout'] = rng.choice([1.0, 2.0])
    ops = case['users'][0]
    if rng.random() < 0.1:
        # every worker reaches its quota at the same instant and nothing is accepted afterwards: one supervision
        # pass replaces them all; leaving on schedule is not a restart and uses up no restart budget
        pc['processes'] = rng.choice([2, 3, 4])
        pc['maxtasksperchild'] = 1
        pc['max_memory_per_child'] = None
        pc['max_restarts'] = rng.randint(1, pc['processes'] - 1)
        pc['max_restart_freq'] = rng.choice([1.0, 3.0])
        ops.append(['sleep', 2.5])
        for rnd in range(rng.randint(1, 2)):
            d = rng.choice([0.3, 0.6])
            for _ in range(pc['processes']):
                ops.append(['apply', c.uid(), [['sleep', d], ['ret', rng.randint(0, 999)]], {}])
            ops.append(['sleep', 2.0])
            ops.append(['check_size'])
        return case
    for _ in range(rng.randint(2, 7)):
        r = rng.random()
        if r < 0.5:
            def mk():
                if rng.random() < 0.15:
                    # every kind of outcome counts against the per-child quota
                    return [['unpicklable']] if rng.random() < 0.6 else prog_raise(rng)
                p = prog_ok(rng)
                if pc.get('max_memory_per_child') and rng.random() < 0.4:
                    p.insert(0, ['rss', 9000])
                return p
            add_applies(rng, c, ops, rng.randint(1, 3), mk=mk)
            if rng.random() < 0.15 and ops[-1][0] == 'apply':
                # a job nobody waits for any more still counts against its worker's quota, and its result is
                # still "consumed" for the worker's exit
                ops.append(['discard', ops[-1][1]])
        elif r < 0.7:
            if pc['maxtasksperchild'] and pc['processes'] > 1 and rng.random() < 0.5:
                # a map that is still running long after workers that finished parts of it left on schedule
                # (a loss of a map part is reported 10 s after the exit): one part outlasts that period
                n = rng.choice([3, 5, 9])
                st = {'i': 0, 'slow': rng.randrange(n)}

                def mkitem():
                    i = st['i']
                    st['i'] += 1
                    return prog_ok(rng, maxticks=2, sleep=rng.choice([11.0, 13.5]) if i == st['slow']
                                   else rng.choice([0, 0.05, 0.3]))
                add_map(rng, c, ops, n=n, mkitem=mkitem, chunks=rng.choice([1, 1, 2, None]))
            else:
                add_map(rng, c, ops, n=rng.choice([2, 5, 9, 14]))
        elif r < 0.8:
            ops.append(['grow', rng.randint(1, 2)])
        elif r < 0.9:
            ops.append(['shrink', 1])
        else:
            add_applies(rng, c, ops, 1, mk=lambda: prog_die(rng, sigs=[SIGKILL, SIGSEGV]))
        if rng.random() < 0.3:
            ops.append(['sleep', rng.choice([0.5, 1.0, 2.0])])
    if rng.random() < 0.45:
        # a caller that is descheduled in the middle of a resize (or of a submission): at its n-th system
        # call ('nth'), between two lines of anything the pool method runs ('line'), or between two lines of
        # the method's own body ('line' + 'body')
        case['stalls'] = []
        for _ in range(rng.randint(1, 2)):
            op = rng.choice(['shrink', 'shrink', 'shrink', 'grow', 'apply'])
            if not any(o[0] == op for o in ops):
                ops.insert(rng.randint(0, len(ops)), ['shrink', 1] if op == 'shrink' else ['grow', 1])
                op = 'shrink' if op == 'shrink' else 'grow'
            mode = rng.choice(['nth', 'line', 'body', 'body'])
            f = {'op': op, 'dur': rng.choice([0.3, 1.0, 2.5])}
            if mode == 'body':
                f['line'] = rng.randint(1, 12)
                f['body'] = True
            else:
                f[mode] = rng.randint(1, 30)
            case['stalls'].append(f)
    if pc.get('maxtasksperchild') and not any(o[0] == 'apply' and has_die(o[2]) for o in ops) and \
            not any(o[0] == 'grow' for o in ops) and rng.random() < 0.4:
        # (no grow() here: workers added by grow() are charged to the budget like restarts, and a refusal makes
        # the supervisor close the pool - the limiter is C11's subject)
        # a restart budget: workers that leave on schedule (quota, memory limit) never use it up
        pc['max_restarts'] = rng.randint(1, 2)
        pc['max_restart_freq'] = rng.choice([1.0, 3.0])
        ops.insert(0, ['sleep', 2.5])          # past the start-up phase, which has a budget of its own
    ops.append(['sleep', 2.0])
    ops.append(['check_size'])
    return case


def has_die(prog):
    return any(ins[0] in ('die', 'os_exit', 'sys_exit') or
               (ins[0] == 'try' and (has_die(ins[1]) or has_die(ins[2]))) for ins in prog)


def gen_C10(rng, tier):
    c = Ctx(rng)
    case = base_case(rng, 'C10')
    pc = case['pool']
    pc['processes'] = rng.randint(1, 3)
    pc['putlocks'] = True
    pc['maxtasksperchild'] = rng.choice([None, None, 2])
    pc['lost_worker_timeout'] = 1.0
    if rng.random() < 0.3:
        pc['timeout'] = rng.choice([1.0, 2.0])
    for ui in range(rng.randint(1, 2)):
        ops = [] if ui else case['users'][0]
        for _ in range(rng.randint(2, 6)):
            r = rng.random()
            if r < 0.55:
                add_applies(rng, c, ops, 1, mk=lambda: prog_ok(rng, sleep=rng.choice([0.05, 0.3, 1.2])))
            elif r < 0.65:
                add_applies(rng, c, ops, 1, opts={'bad_arg': True})
            elif r < 0.8:
                add_applies(rng, c, ops, 1, mk=lambda: prog_die(rng, sigs=[SIGKILL, SIGTERM]))
            elif r < 0.9 and pc.get('timeout'):
                add_applies(rng, c, ops, 1, mk=lambda: prog_long(rng, pc['timeout'] + rng.choice([0.3, 2.0])))
            elif ui:
                # (grow()/shrink() are issued by one thread, as a sequence: two concurrent shrink() calls can pick
                # the same worker and signal it twice, which is outside what the properties quantify over)
                add_applies(rng, c, ops, 1)
            elif r < 0.93:
                ops.append(['grow', 1])
            elif r < 0.97:
                ops.append(['shrink', 1])
            else:
                # every worker busy with parts of a map (which take no slot): shrink() is refused
                add_map(rng, c, ops, kind='map', n=pc['processes'] + rng.randint(0, 2), chunks=1,
                        mkitem=lambda: prog_ok(rng, maxticks=1, sleep=rng.choice([0.6, 1.5])))
                ops.append(['sleep', 0.2])
                ops.append(['shrink', 1])
        if ui:
            case['users'].append(ops)
    case['users'][0].append(['sleep', 3.0])
    case['users'][0].append(['check_slots'])
    return case


def gen_C11(rng, tier):
    c = Ctx(rng)
    case = base_case(rng, 'C11')
    pc = case['pool']
    pc['processes'] = rng.randint(1, 3)
    pc['max_restarts'] = rng.randint(1, 5)
    pc['max_restart_freq'] = rng.choice([0.5, 1.0, 3.0])
    pc['lost_worker_timeout'] = 1.0
    pc['maxtasksperchild'] = rng.choice([None, None, 1, 2])
    ops = case['users'][0]
    ops.append(['sleep', rng.choice([0, 2.5])])       # inside / after the start-up burst phase
    for _ in range(rng.randint(2, 9)):
        r = rng.random()
        if r < 0.55:
            add_applies(rng, c, ops, 1, mk=lambda: [['os_exit', rng.choice([1, 2, 70])]] if rng.random() < 0.7
                        else [['die', rng.choice([SIGKILL, SIGSEGV])]])
        elif r < 0.7:
            add_applies(rng, c, ops, 1, mk=lambda: [['os_exit', rng.choice([0, EX_RECYCLE])]])
        else:
            add_applies(rng, c, ops, 1, mk=lambda: prog_ok(rng, sleep=0.05))
            if rng.random() < 0.3:
                # nobody wants the result any more: its acceptance still restores the budget
                ops.append(['discard', ops[-1][1]] if ops[-1][0] == 'apply' else ['sleep', 0])
        ops.append(['sleep', rng.choice([0.0, 0.1, 0.3, 0.9, 1.7, 3.5])])
    case['epilogue'] = 'terminate'
    return case


def gen_C12(rng, tier):
    c = Ctx(rng)
    case = base_case(rng, 'C12')
    pc = case['pool']
    pc['processes'] = rng.randint(1, 2)
    ops = case['users'][0]
    for _ in range(rng.randint(2, 5)):
        r = rng.random()
        if r < 0.4:
            add_applies(rng, c, ops, 1, mk=lambda: prog_raise(rng, deep=True))
        elif r < 0.48:
            # the task callable itself is a C function that raises (traceback of one entry)
            add_applies(rng, c, ops, 1, mk=lambda: [], opts={'builtin': rng.choice(['int', 'truediv', 'getitem'])})
        elif r < 0.56:
            # raised by generated code (a function built with exec() into a dict without __file__/__name__)
            add_applies(rng, c, ops, 1, mk=lambda: [['tick', rng.randint(0, 2)],
                                                    ['raise_exec', rng.choice(['ValueError', 'KeyError', 'TaskError'])]])
        elif r < 0.75:
            add_applies(rng, c, ops, 1, mk=lambda: [['tick', 1], [rng.choice(['unpicklable', 'nested_unpicklable'])]])
        elif r < 0.9:
            add_applies(rng, c, ops, 1)
        else:
            add_map(rng, c, ops, n=3, fail=0.5, kind=rng.choice(['map', 'imap']))
    return case


PROFILES = {'C01': gen_C01, 'C02': gen_C02, 'C03': gen_C03, 'C04': gen_C04, 'C05': gen_C05, 'C06': gen_C06,
            'C07': gen_C07, 'C08': gen_C08, 'C09': gen_C09, 'C10': gen_C10, 'C11': gen_C11, 'C12': gen_C12}


def generate(rng, tier, prop):
    return PROFILES[prop](rng, tier)


# ---------------------------------------------------------------------- shrinking
def _simplify_prog(prog):
    if len(prog) > 1:
        for i in range(len(prog) - 1):
            yield prog[:i] + prog[i + 1:]
    for i, ins in enumerate(prog):
        if ins[0] == 'tick' and ins[1] > 1:
            yield prog[:i] + [['tick', 1]] + prog[i + 1:]
        if ins[0] == 'sleep' and ins[1] > 0.05:
            yield prog[:i] + [['sleep', round(ins[1] / 2, 3)]] + prog[i + 1:]


def shrink(case):
    # drop a user op
    for ui, ops in enumerate(case['users']):
        for i in range(len(ops)):
            c = copy.deepcopy(case)
            del c['users'][ui][i]
            yield c
    if len(case['users']) > 1:
        c = copy.deepcopy(case)
        c['users'].pop()
        yield c
    # drop external faults
    for i in range(len(case.get('ext_faults', []))):
        c = copy.deepcopy(case)
        del c['ext_faults'][i]
        yield c
    for i in range(len(case.get('stalls', []))):
        c = copy.deepcopy(case)
        del c['stalls'][i]
        yield c
    # shrink map items / simplify programs
    for ui, ops in enumerate(case['users']):
        for i, op in enumerate(ops):
            if op[0] == 'map' and len(op[2]) > 0:
                for j in range(len(op[2])):
                    c = copy.deepcopy(case)
                    del c['users'][ui][i][2][j]
                    yield c
                for j, it in enumerate(op[2]):
                    for sp in _simplify_prog(it[1]):
                        c = copy.deepcopy(case)
                        c['users'][ui][i][2][j][1] = sp
                        yield c
            if op[0] == 'apply':
                for sp in _simplify_prog(op[2]):
                    c = copy.deepcopy(case)
                    c['users'][ui][i][2] = sp
                    yield c
    pc = case['pool']
    if pc['processes'] > 1:
        c = copy.deepcopy(case)
        c['pool']['processes'] -= 1
        yield c
    for key in ('maxtasksperchild', 'timeout', 'soft_timeout', 'max_memory_per_child'):
        if pc.get(key) is not None:
            c = copy.deepcopy(case)
            c['pool'][key] = None
            yield c
    for key, val in (('short_io', False), ('pipe_cap', 65536), ('sleep_jitter', 0.0), ('policy', 'fifo'),
                     ('cb_delay', None), ('th_preempt', None)):
        if case.get(key) != val:
            c = copy.deepcopy(case)
            c[key] = val
            yield c
