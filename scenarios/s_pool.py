"""S-POOL: the whole billiard pool (parent handler threads + real workers created by
pickled spawn) on the simulated kernel.  Serves C01-C12 (generator profile per property;
every oracle clause is evaluated in every run, a check counts only its own clauses)."""
import signal as _signal

from .common import new_kernel, finish, V, POLICIES, state, seams, H
from . import poolsim
from . import pooltask as T
from . import pool_world as OR
from . import pool_gen as G

RUNS_PER_FORK = 1
COMPONENTS = {
    'real': ['billiard/pool.py: Pool, Worker.__call__/workloop/_do_exit/_ensure_messages_consumed, Supervisor, '
             'TaskHandler, TimeoutHandler, ResultHandler, ApplyResult, MapResult, IMapIterator, '
             'IMapUnorderedIterator, LaxBoundedSemaphore; billiard/common.py restart_state, reset_signals, '
             '_shutdown_cleanup, human_status; billiard/queues.py SimpleQueue; billiard/connection.py framing; '
             'billiard/synchronize.py Lock/RLock/Event; billiard/sharedctypes.py Value (real mmap arena); '
             'billiard/process.py BaseProcess.start/join/is_alive/exitcode/terminate; billiard/popen_fork.py '
             'Popen.poll/wait/terminate; billiard/einfo.py; billiard/reduction.py (spawn-style pickling of workers)'],
    'stub': ['kernel: SemLock, pipes, poll, process table, pids, kill/killpg/getpgid, signal dispositions and '
             'delivery, waitpid/exit statuses, os._exit, clock/sleep, thread start/join, threading.Lock/Event/'
             'Condition, queue.Queue, RSS reading', 'BaseProcess._bootstrap replaced by a replica of its exit-code '
             'mapping (the real one is checked by S-PROC)', 'start method: spawn-like (pickled copy), no fork of '
             'Python heaps'],
}
ASSUMPTIONS = [
    'workers die (uncatchably) only inside task code or between jobs, never while holding the shared queue locks',
    'a pipe never loses, duplicates or corrupts bytes; the clock never goes backwards',
    'signals are delivered to a worker at its next kernel call or while it is blocked (not between two bytecodes)',
    'timing clauses are evaluated only in runs without stall faults and without sleep jitter',
    'grow()/shrink() are issued by one thread at a time (as a sequence), concurrently with everything else',
    'with threads=False the thread that runs the event loop is the one that calls join()/terminate()',
    'C04: user callbacks keep the result handler away from the result pipe for less than the lost-worker timeout '
    '(the pool waits that long for a result its dead worker may have published; it cannot tell a result that '
    'sits unread for longer from a lost one)',
]
RULE = ('case = (pool configuration, 1-2 user programs of apply/map/starmap/imap/imap_unordered/get/next/close/join/'
        'terminate/grow/shrink/discard/terminate_job ops over picklable task programs, in-task fault instructions '
        '(death by any signal/exit status at a chosen tick, sys.exit, unpicklable result, RSS growth, catching the '
        'soft limit), operator signals, scheduling policy, pipe capacity, short I/O) drawn from the seed; distinct = '
        'distinct (workload hash, schedule fingerprint over decisions with >= 2 runnable actors); non-trivial = at '
        'least 2 actors interleaved AND the subject of the property occurred in the run (see subject counters)')
PROBES = OR.PROBES


def generate(rng, tier, prop='C01'):
    return G.generate(rng, tier, prop)


def shrink(case):
    return G.shrink(case)


def execute(case, seed, choices=None):
    pc = case['pool']
    k = new_kernel(seed, {'policy': case.get('policy', 'random'), 'horizon': case.get('horizon', 900.0),
                          'max_steps': case.get('max_steps', 120000),
                          'pipe_cap': case.get('pipe_cap', 65536), 'short_io': case.get('short_io', False),
                          'sleep_jitter': case.get('sleep_jitter', 0.0),
                          'group_leaders': pc.get('group_leaders', False), 'log_cap': 400000,
                          'log_sleeps': True},
                   choices)
    poolsim.install_pool()
    poolsim.setup_kernel(k)
    import billiard.pool as P
    ctx = poolsim.PoolContext()
    W = OR.World(k, case, P)
    if case.get('th_preempt'):
        # (Popen.wait() is where the scanner looks at the worker's handle after the TERM)
        k.enable_func_preemption(('billiard/pool.py', 'billiard/popen_fork.py'), ('_trywaitkill', 'wait'), 0.5, 0.7,
                                 stall_dur=case['th_preempt'])

    def on_child(child, process_obj):
        W.on_worker_started(child, process_obj)
    k.cfg['_on_child'] = on_child
    k.cfg['_world'] = W
    k.cfg['_on_pass_end'] = W.on_pass_end
    k.cfg['_on_pass_begin'] = W.on_pass_begin
    k.cfg['_on_worker_created'] = W.on_worker_created
    k.cfg['_on_sig_deliver'] = W.on_sig_deliver

    def host_term(signum, frame):
        k.record('host-signal', int(signum))
        W.host_signals.append((k.steps, k.now, int(signum)))
    k.root.sig[int(_signal.SIGTERM)] = host_term

    def make_pool():
        kw = dict(processes=pc['processes'], maxtasksperchild=pc.get('maxtasksperchild'),
                  timeout=pc.get('timeout'), soft_timeout=pc.get('soft_timeout'),
                  lost_worker_timeout=pc.get('lost_worker_timeout'),
                  max_restarts=pc.get('max_restarts'), max_restart_freq=pc.get('max_restart_freq', 1),
                  threads=pc.get('threads', True), putlocks=pc.get('putlocks', False),
                  allow_restart=pc.get('allow_restart', False),
                  max_memory_per_child=pc.get('max_memory_per_child'),
                  enable_timeouts=pc.get('enable_timeouts', False),
                  on_process_exit=T.on_exit, context=ctx,
                  semaphore=poolsim.make_putlock(pc['processes']))
        cls = P.Pool
        if pc.get('synack'):
            cls = OR.make_synack_pool(P, W)
            kw['synack'] = True
        pool = cls(**kw)
        W.pool = pool
        W.pool_created()
        return pool

    def user0():
        pool = make_pool()
        users = case['users']
        others = []
        for ui in range(1, len(users)):
            others.append(k.spawn_thread(lambda ui=ui: W.run_user(ui, users[ui]), 'user%d' % ui))
        if not pc.get('threads', True):
            others.append(k.spawn_thread(W.event_loop, 'evloop'))
        W.run_user(0, users[0])
        for a in others:
            if a.kind != 'evloop':
                k.join_actor(a)
        W.epilogue()

    k.step_hook = W.step_hook
    k.state_fn = W.abstract_state
    k.fault_hook = W.fault_hook
    k.spawn_actor(k.root, user0, 'P0.user', main=True)
    k.run()
    try:
        if W.pool is not None:
            W.pool._terminate.cancel()      # never let the real interpreter exit run it
    except Exception:     # noqa
        pass
    viol, nontrivial = W.judge()
    return finish(k, case, viol, nontrivial, {'subjects': W.subjects})
