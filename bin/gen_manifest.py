#!/venv/bin/python
"""Regenerate /verif/MANIFEST.json from checks.REGISTRY and checks.texts."""
import json
import os
import sys

VERIF = os.path.dirname(os.path.dirname(os.path.abspath(__file__)))
sys.path.insert(0, VERIF)
from checks import REGISTRY, DISABLED           # noqa: E402
from checks.texts import TEXTS, NOT_BUILT_REASON, NOT_APPLICABLE   # noqa: E402

PY = '/venv/bin/python'


def main():
    props = [json.loads(l)['id'] for l in open(os.path.join(VERIF, 'properties.jsonl'))]
    checks = []
    na = []
    for pid in props:
        if pid in REGISTRY and pid not in DISABLED:
            t = TEXTS[pid]
            checks.append({
                'property_id': pid,
                'quick_cmd': '%s bin/check.py %s --tier quick' % (PY, pid),
                'thorough_cmd': '%s bin/check.py %s --tier thorough' % (PY, pid),
                'evidence_file': 'evidence/%s.json' % pid,
                'replay_cmd_template': '%s bin/check.py %s --replay {path}' % (PY, pid),
                'engine': 'simos',
                'level_claimed': {'category': 'exploration', 'text': t['level'], 'design_ref': t['ref']},
                'level_note': t['note'],
                'technique': t.get('technique', 'deterministic simulation with fault injection: seeded '
                                   'schedule/fault search over real billiard code on a simulated kernel'),
            })
        elif pid in NOT_APPLICABLE:
            na.append({'property_id': pid, 'reason': NOT_APPLICABLE[pid]})
        else:
            na.append({'property_id': pid, 'reason': NOT_BUILT_REASON})
    m = {
        'version': 1,
        'setup_cmd': '%s bin/setup.py' % PY,
        'hooks': {
            'guard': 'BILLIARD_VERIF',
            'enable': 'no source hooks: every seam is a module attribute, class attribute or function '
                      '__defaults__ assigned from /verif/simos/seams.py at run time; checks import billiard '
                      'from /repo (BILLIARD_SRC) so the current working tree is what runs',
            'baseline_off_cmd': 'cd /repo && /venv/bin/python -m pytest -ra -q -p no:cacheprovider --timeout=900 '
                                '--continue-on-collection-errors',
            'source_commits': [],
            'add_only': True,
        },
        'engines': [{
            'name': 'simos', 'path': 'simos/',
            'serves_properties': sorted(set(REGISTRY) - DISABLED),
            'kind_free_text': 'deterministic simulator: simulated kernel (semaphores, fds/pipes/sockets/poll, '
                              'process table, signals, clock) + baton-passing actors under a seeded scheduler; '
                              'real billiard code on top; seeded search with fault injection, replay and '
                              'delta-debugging minimisation',
        }],
        'checks': checks,
        'not_applicable': na,
        'notes': 'Exit codes: 0 held / 1 VIOLATION / 2 harness error. Known findings: known_findings.json. '
                 'Seeded mutants: seeded/. VERIF_SEED selects the base seed; VERIF_JOBS the worker count.',
    }
    with open(os.path.join(VERIF, 'MANIFEST.json'), 'w') as f:
        json.dump(m, f, indent=1)
    print('MANIFEST.json: %d checks, %d not claimed' % (len(checks), len(na)))


if __name__ == '__main__':
    main()
