#!/venv/bin/python
"""Regenerate /verif/MANIFEST.json from checks.REGISTRY and checks.texts."""
import json
import os
import sys

VERIF = os.path.dirname(os.path.dirname(os.path.abspath(__file__)))
sys.path.insert(0, VERIF)
from checks import REGISTRY, DISABLED           # noqa: E402
from checks.texts import TEXTS, NOT_BUILT_REASON, NOT_APPLICABLE   # noqa: E402

PY = '/venv/bin/python'

# fault / placement kinds and clauses added after the first independent evaluation (DESIGN.md 12.5)
ADDENDA = {
    'C01': ' Also: ACK/READY frames a worker already sent delivered a second time (message duplication); '
           'terminate_job() racing the exit of another job\'s worker within one supervision pass; a task that '
           'returns at the instant the time-limit scanner decides about it.',
    'C02': ' Also: raises from beyond the recursion limit, empty inputs after non-empty ones (iterator must end).',
    'C03': ' Also: results whose encoding fails with any of six exception kinds; a task that ended must be followed '
           'by a result message.',
    'C04': ' Also: deaths by unnamed (real-time) signals; per-part accounting of imap/imap_unordered with parts '
           'still running when the loss is reported (each lost part reported once, finished parts delivered); one '
           'part of a map outlasting the loss-report period while other owners leave on schedule or die in their '
           'next job after publishing their part (result read late because of a slow callback).',
    'C05': ' Also: a nearly-late job next to an overdue one in the same scan, a result racing the scanner\'s '
           'decision, tasks that catch the soft limit and run into the hard one; no hard-limit action for a job '
           'that resolved otherwise.',
    'C06': ' Also: slow user callbacks (scans go by inside them), tasks that keep working after catching the limit; '
           'signals are attributed to the job the scanner named.',
    'C07': ' Also: close() placed in the middle of a supervision pass that replaces several workers.',
    'C08': ' Also: terminate() placed in the middle of a supervision pass (after grow), tasks whose catch-all '
           'handler swallows or translates the exit request.',
    'C09': ' Also: the caller of shrink()/grow()/apply_async descheduled for 0.3-2.5 s at its n-th system call or '
           'between two lines of the method; jobs with unencodable results counted against the quota; every worker '
           'reaching its quota at one instant under a restart budget (the limiter must not be stepped); a map part '
           'that outlasts the loss-report period next to recycling.',
    'C12': ' Also: the text must contain the raising source line at every depth.',
    'C15': ' Also: a child forked while the parent holds the object\'s lock (byte copy of the held lock handle + '
           'registered after-fork hooks), object created under a context named fork.',
    'C17': ' Also: timeouts tied to the instant another actor notifies/sets.',
    'C19': ' Also: zero and negative join timeouts; spawn start method through the repository\'s own _launch.',
    'C20': ' Also: second proxies obtained through a registered callable returning the existing object, proxies '
           're-obtained by name while the last one is released elsewhere, every line of the server\'s '
           'create/incref/decref a pre-emption point (focus: the window between last decrement and disposal).',
}


def main():
    props = [json.loads(l)['id'] for l in open(os.path.join(VERIF, 'properties.jsonl'))]
    checks = []
    na = []
    for pid in props:
        if pid in REGISTRY and pid not in DISABLED:
            t = TEXTS[pid]
            checks.append({
                'property_id': pid,
                'quick_cmd': '%s bin/check.py %s --tier quick' % (PY, pid),
                'thorough_cmd': '%s bin/check.py %s --tier thorough' % (PY, pid),
                'evidence_file': 'evidence/%s.json' % pid,
                'replay_cmd_template': '%s bin/check.py %s --replay {path}' % (PY, pid),
                'engine': 'simos',
                'level_claimed': {'category': 'exploration', 'text': t['level'] + ADDENDA.get(pid, ''),
                                  'design_ref': t['ref']},
                'level_note': t['note'],
                'technique': t.get('technique', 'deterministic simulation with fault injection: seeded '
                                   'schedule/fault search over real billiard code on a simulated kernel'),
            })
        elif pid in NOT_APPLICABLE:
            na.append({'property_id': pid, 'reason': NOT_APPLICABLE[pid]})
        else:
            na.append({'property_id': pid, 'reason': NOT_BUILT_REASON})
    m = {
        'version': 1,
        'setup_cmd': '%s bin/setup.py' % PY,
        'hooks': {
            'guard': 'BILLIARD_VERIF',
            'enable': 'no source hooks: every seam is a module attribute, class attribute or function '
                      '__defaults__ assigned from /verif/simos/seams.py at run time; checks import billiard '
                      'from /repo (BILLIARD_SRC) so the current working tree is what runs',
            'baseline_off_cmd': 'cd /repo && /venv/bin/python -m pytest -ra -q -p no:cacheprovider --timeout=900 '
                                '--continue-on-collection-errors',
            'source_commits': [],
            'add_only': True,
        },
        'engines': [{
            'name': 'simos', 'path': 'simos/',
            'serves_properties': sorted(set(REGISTRY) - DISABLED),
            'kind_free_text': 'deterministic simulator: simulated kernel (semaphores, fds/pipes/sockets/poll, '
                              'process table, signals, clock) + baton-passing actors under a seeded scheduler; '
                              'real billiard code on top; seeded search with fault injection, replay and '
                              'delta-debugging minimisation',
        }],
        'checks': checks,
        'not_applicable': na,
        'notes': 'Exit codes: 0 held / 1 VIOLATION / 2 harness error. Known findings: known_findings.json. '
                 'Seeded mutants: seeded/. VERIF_SEED selects the base seed; VERIF_JOBS the worker count.',
    }
    with open(os.path.join(VERIF, 'MANIFEST.json'), 'w') as f:
        json.dump(m, f, indent=1)
    print('MANIFEST.json: %d checks, %d not claimed' % (len(checks), len(na)))


if __name__ == '__main__':
    main()
