#!/venv/bin/python
"""setup: nothing to build (pure Python); verify the environment and the seams."""
import os
import sys
VERIF = os.path.dirname(os.path.dirname(os.path.abspath(__file__)))
sys.path.insert(0, VERIF)
sys.path.insert(0, os.environ.get('BILLIARD_SRC', '/repo'))
sys.dont_write_bytecode = True


def main():
    import billiard
    import billiard.pool, billiard.synchronize, billiard.connection, billiard.queues  # noqa
    from billiard.connection import Connection
    assert Connection._send.__defaults__ and Connection._recv.__defaults__ and Connection._close.__defaults__
    assert billiard.pool.Worker.workloop.__defaults__[1] is billiard.pool.monotonic
    from simos import seams, kernel, objects  # noqa
    os.makedirs(os.path.join(VERIF, 'evidence'), exist_ok=True)
    os.makedirs(os.path.join(VERIF, 'replays'), exist_ok=True)
    print('setup ok: billiard %s from %s' % (billiard.__version__, os.path.dirname(billiard.__file__)))


if __name__ == '__main__':
    main()
