#!/venv/bin/python
"""check.py <Cxx> --tier quick|thorough [--runs N] [--budget S] [--replay FILE] [--jobs N]

exit 0: property held on everything explored (KNOWN-FINDING lines allowed)
exit 1: VIOLATION property=<id> replay=<path>
exit 2: harness error (never a verdict)
"""
import argparse
import json
import os
import sys

_HS = os.environ.get('VERIF_HASHSEED', '0')
if os.environ.get('PYTHONHASHSEED') != _HS:
    os.environ['PYTHONHASHSEED'] = _HS
    os.execv(sys.executable, [sys.executable] + sys.argv)

VERIF = os.path.dirname(os.path.dirname(os.path.abspath(__file__)))
sys.path.insert(0, VERIF)
SRC = os.environ.get('BILLIARD_SRC', '/repo')
sys.path.insert(0, SRC)
sys.dont_write_bytecode = True

from simos import runner          # noqa: E402
from checks import REGISTRY       # noqa: E402


def main():
    ap = argparse.ArgumentParser()
    ap.add_argument('prop')
    ap.add_argument('--tier', default=os.environ.get('VERIF_TIER', 'quick'))
    ap.add_argument('--runs', type=int)
    ap.add_argument('--budget', type=float)
    ap.add_argument('--jobs', type=int, default=int(os.environ.get('VERIF_JOBS', '16')))
    ap.add_argument('--replay')
    ap.add_argument('--no-evidence', action='store_true')
    ap.add_argument('--verbose', action='store_true')
    ap.add_argument('--survey', action='store_true', help='list violation signatures, no minimisation/verdict')
    ap.add_argument('--digests', type=int, help='print {run index: digest} for the first N runs and exit')
    ap.add_argument('--reverse', action='store_true', help='(with --digests) execute runs in reverse order')
    args = ap.parse_args()
    prop = args.prop
    spec = REGISTRY[prop]
    if args.replay:
        rep, res = runner.replay_file(args.replay)
        if res.get('error'):
            print('HARNESS-ERROR during replay:\n' + res['error'])
            return 2
        sigs = sorted(set(v['sig'] for v in res.get('violations', ())))
        print('replay %s: end=%s steps=%s digest=%s (recorded %s)' % (
            args.replay, res.get('end'), res.get('steps'), res.get('digest'), rep.get('digest')))
        for v in res.get('violations', ()):
            print('  %s: %s' % (v['sig'], str(v['detail'])[:400]))
        if rep['signature'] in sigs:
            print('VIOLATION property=%s replay=%s' % (prop, args.replay))
            return 1
        print('recorded signature %s did not reproduce' % rep['signature'])
        return 0
    base_seed = int(os.environ.get('VERIF_SEED', '20260923'))
    tier = args.tier
    if args.digests:
        out = {}
        for part in spec['parts']:
            d = runner.digests(prop, part['scenario'], tier, base_seed, args.digests, jobs=args.jobs,
                               src=SRC, reverse=args.reverse)
            out[part['scenario']] = d
        print('DIGESTS ' + json.dumps(out, sort_keys=True))
        return 0
    tspec = spec[tier]
    n_runs = args.runs or tspec['runs']
    budget = args.budget or tspec['budget']
    total_viol = 0
    total_err = 0
    merged = None
    for part in spec['parts']:
        frac = part.get('frac', 1.0)
        b = runner.run_batch(prop, part['scenario'], tier, base_seed, max(1, int(n_runs * frac)),
                             budget * frac, jobs=args.jobs, src=SRC, chunk=part.get('chunk', 8),
                             survey=args.survey)
        for ln in b['lines']:
            print(ln)
        total_viol += b['new_violations']
        total_err += b['agg']['errors']
        if b['err_samples'] and (args.verbose or b['agg']['errors'] > 0):
            for es in b['err_samples'][:3]:
                print('HARNESS-ERROR sample:', json.dumps(es, default=str)[:3000])
        part['_batch'] = b
    if not args.no_evidence:
        scen = runner._import_scen(spec['parts'][0]['scenario'])
        b0 = spec['parts'][0]['_batch']
        extra = {}
        if len(spec['parts']) > 1:
            extra['other_parts'] = []
            for part in spec['parts'][1:]:
                b = part['_batch']
                extra['other_parts'].append({
                    'scenario': part['scenario'], 'evaluations': b['agg']['runs'],
                    'distinct_nontrivial': b['nontrivial'], 'faults_fired': b['agg']['faults'],
                    'probes_hit': b['agg']['probes'], 'simulated_seconds': round(b['agg']['sim_s'], 1),
                    'samples': b['samples'][:2], 'harness_errors': b['agg']['errors']})
        if spec.get('evidence_extra'):
            extra.update(spec['evidence_extra'])
        ev = runner.write_evidence(prop, tier, base_seed, scen, b0, extra)
        ev['violations'] = total_viol
        with open(os.path.join(VERIF, 'evidence', '%s.json' % prop), 'w') as f:
            json.dump(ev, f, indent=1, default=str)
    b0 = spec['parts'][0]['_batch']
    runs = sum(p['_batch']['agg']['runs'] for p in spec['parts'])
    print('%s %s: %d runs, %.1fs wall, %d distinct non-trivial, %d harness errors, %d new violation signature(s)' % (
        prop, tier, runs, sum(p['_batch']['wall'] for p in spec['parts']),
        sum(p['_batch']['nontrivial'] for p in spec['parts']), total_err, total_viol))
    if total_viol:
        return 1
    unconfirmed = sum(p['_batch']['agg'].get('unconfirmed', 0) for p in spec['parts'])
    if unconfirmed:
        # a violation was observed in the batch and could not be reproduced from its replay file: neither a
        # verdict nor a pass
        print('HARNESS-ERROR: %d violation signature(s) seen in the batch did not replay' % unconfirmed)
        return 2
    if total_err > max(3, runs // 50):
        print('HARNESS-ERROR: too many harness errors (%d of %d runs)' % (total_err, runs))
        return 2
    return 0


if __name__ == '__main__':
    sys.exit(main())
