"""Per-property manifest texts."""
NOT_BUILT_REASON = ('check not built yet in this session (work in progress; the property is a simulation '
                    'target per DESIGN.md section 5 and will be claimed once its scenario exists)')
NOT_APPLICABLE = {}

TEXTS = {
    'C13': {
        'level': 'Seeded search over message sequences x kernel behaviours: the real Connection framing/send/recv '
                 'loops run over simulated pipes and socket pairs whose reads and writes are split at '
                 'scheduler-chosen byte counts, interrupted with EINTR, throttled by 64B..64KiB buffers, and whose '
                 'peer closes at chosen byte offsets (header / payload / boundary); FIFO reference model of whole '
                 'messages checked per receive (recv_bytes, recv_bytes_into, recv, poll), plus argument/state '
                 'checks that must fail before any I/O (kernel I/O counter). Sampling, not proof.',
        'ref': 'DESIGN.md 5 (C13), 4 (S-CONN)',
        'note': 'Trusted: a pipe/stream socket is a reliable byte FIFO as modelled by simos.kernel (cross-checked '
                'against os.pipe by selftest/conformance.py). Lengths near 2**31-1 are not allocated.',
    },
    'C18': {
        'level': 'Seeded search over key pairs (equal, one bit apart, prefix/extension, case, random, 1B..4KiB), '
                 'honest x honest and honest x hostile handshakes on a simulated stream socket: the hostile side '
                 'sends at each step a scripted message (correct/truncated/extended/bit-flipped/other-key/replayed '
                 'digest, early WELCOME/FAILURE, oversize, empty, close, malformed challenge); oracle: a connection '
                 'is returned iff the peer produced exactly HMAC(key, this connection\'s challenge) and the expected '
                 'verdicts, both sides fail with AuthenticationError on different keys, each challenge is a fresh '
                 'urandom(20) value that really went over the wire, non-bytes keys raise TypeError unused.',
        'ref': 'DESIGN.md 5 (C18), 4 (S-AUTH)',
        'note': 'Trusted: hmac/md5 from the standard library; cryptographic strength of HMAC-MD5 and relay of a '
                'digest computed by another honest key holder are outside the check.',
    },
    'C17': {
        'level': 'Seeded search over schedules (pre-emption at every semaphore operation; timeouts fire at '
                 'scheduler-chosen instants) of billiard.synchronize Condition/Event/Lock/Semaphore code running '
                 'unmodified on a simulated SemLock, in thread and in process (pickled-copy) mode; history oracle: '
                 'every True wait matched to a distinct grant, untimed waiters owed a wake-up get it, timed-out '
                 'waits return False only after the deadline, counters consistent at quiescence, Event.wait/is_set '
                 'agree with the flag timeline. Sampling, not proof.',
        'ref': 'DESIGN.md 5 (C17), 3, 4 (S-SYNC)',
        'note': 'Trusted: the real POSIX semaphore behaves like simos.objects.SimSemLock (cross-checked by '
                'selftest/conformance.py against _multiprocessing.SemLock); pre-emption granularity is one '
                'semaphore operation.',
    },
}
