"""Manifest texts are in checks/parts/Cxx.py; this module only keeps the two shared constants."""
from . import TEXTS  # noqa
NOT_BUILT_REASON = ('check not built yet in this session (work in progress; the property is a simulation '
                    'target per DESIGN.md section 5 and will be claimed once its scenario exists)')
NOT_APPLICABLE = {}
