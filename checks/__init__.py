"""Property -> scenario registry, discovered from checks/parts/Cxx.py.

Each part module defines ENTRY (parts/tiers) and TEXT (manifest texts: level, ref, note[, technique])."""
import importlib
import os
import pkgutil

REGISTRY = {}
TEXTS = {}
DISABLED = set()      # registered (runnable) but not yet claimed in MANIFEST.json

_d = os.path.join(os.path.dirname(__file__), 'parts')
for _m in sorted(pkgutil.iter_modules([_d])):
    _mod = importlib.import_module('checks.parts.' + _m.name)
    REGISTRY[_m.name] = _mod.ENTRY
    TEXTS[_m.name] = _mod.TEXT
    if not getattr(_mod, 'ENABLED', True):
        DISABLED.add(_m.name)
