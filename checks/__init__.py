"""Property -> scenario registry (tiers: number of runs and wall budget in seconds)."""

REGISTRY = {
    'C17': {'parts': [{'scenario': 'scenarios.s_sync', 'chunk': 40}],
            'quick': {'runs': 6000, 'budget': 40}, 'thorough': {'runs': 400000, 'budget': 900}},
}
