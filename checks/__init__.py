"""Property -> scenario registry (tiers: number of runs and wall budget in seconds)."""

REGISTRY = {
    'C18': {'parts': [{'scenario': 'scenarios.s_auth', 'chunk': 40}],
            'quick': {'runs': 6000, 'budget': 35}, 'thorough': {'runs': 400000, 'budget': 900}},
    'C13': {'parts': [{'scenario': 'scenarios.s_conn', 'chunk': 20}],
            'quick': {'runs': 4000, 'budget': 40}, 'thorough': {'runs': 300000, 'budget': 900}},
    'C17': {'parts': [{'scenario': 'scenarios.s_sync', 'chunk': 40}],
            'quick': {'runs': 6000, 'budget': 40}, 'thorough': {'runs': 400000, 'budget': 900}},
}
