"""Registry entry, manifest texts for C19."""

ENTRY = {'parts': [{'scenario': 'scenarios.s_proc', 'chunk': 20}],
         'quick': {'runs': 4000, 'budget': 40}, 'thorough': {'runs': 300000, 'budget': 900}}

TEXT = {'level': 'Seeded search over child exit paths x parent polling instants: the real BaseProcess.start/join/'
                 'is_alive/exitcode/terminate and Popen.poll/wait (fork flavour), the real popen_spawn_posix.Popen._launch on '
                 'simulated descriptors (spawn flavour) resp. popen_forkserver.Popen.poll '
                 '(forkserver flavour, status pipe, 255 on EOF) run against children that execute the real '
                 'BaseProcess._bootstrap around a scripted target (return, raise, sys.exit(n), every fatal signal, '
                 'os._exit) on the simulated process table; 1-2 parent threads poll at scheduler-chosen instants around '
                 'the exit, with EINTR from waitpid. Oracle: lifecycle model running -> exited(status) -> reaped: '
                 'None/alive only while the child lives, then 0 / 1 / n / -s (non-zero under forkserver), join(t) '
                 'within t (+1 ms), untimed join only after the exit, not an active child after join, second and '
                 'foreign start refused.',
        'ref': 'DESIGN.md 5 (C19), 4 (S-PROC)',
        'note': 'Trusted: wait-status encoding and signal semantics of the simulated kernel (cross-checked against real '
                'forked children by selftest/conformance.py); the forkserver process itself is replaced by its protocol '
                '(pid, then exit code, on the status pipe); the fresh interpreter of the spawn method is a simulated '
                'process that inherits exactly the descriptors _launch passes and unpickles what _launch writes. Sampling, not proof.'}
