"""Registry entry, manifest texts for C11."""

ENTRY = {'parts': [{'scenario': 'scenarios.s_pool', 'chunk': 6, 'frac': 0.75},
                   {'scenario': 'scenarios.s_restart', 'chunk': 50, 'frac': 0.25}],
         'quick': {'runs': 3000, 'budget': 45}, 'thorough': {'runs': 200000, 'budget': 1200}}

TEXT = {'level': '(1) restart_state.step driven through generated histories of restart requests, gaps (simulated '
          'clock, also exactly at the window edge) and acceptance resets against a model written from the '
          'property text (history sweep: no interleaving involved, said so in the evidence). (2) the whole '
          'pool with max_restarts 1-5 and max_restart_freq 0.5-3 s, workers exiting abnormally / cleanly / '
          'with the recycle status at generated gaps, acceptances in between: every request the pool makes '
          'to its limiter is replayed through the model (admitted/refused must agree), clean/recycle exits '
          'never consult it, no fork after a refusal.',
 'note': 'Trusted: the simulated kernel (simos) models Linux semaphores, pipes, poll, process table, signals '
         'and wait statuses faithfully (stub conformance: selftest/conformance.py); BaseProcess._bootstrap '
         'is replaced by a replica of its exit-code mapping (checked by C19); start method is spawn-like '
         '(pickled copy). Workers die uncatchably only inside task code or between jobs; pipes do not lose '
         'bytes. Sampling, not proof.',
 'ref': 'DESIGN.md 5 (C11), 4 (S-POOL, S-RESTART)'}
