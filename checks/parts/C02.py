"""Registry entry, manifest texts for C02."""

ENTRY = {'parts': [{'scenario': 'scenarios.s_pool', 'chunk': 6}],
         'quick': {'runs': 2500, 'budget': 40}, 'thorough': {'runs': 150000, 'budget': 1200}}

TEXT = {'level': 'Seeded search over inputs x chunkings x completion orders: map/starmap/imap/imap_unordered/apply '
          'on pools of 1-4 real workers whose chunk completion order is chosen by the scheduler; lengths '
          '0-24 incl. non-multiples of the chunk size, explicit and defaulted chunk sizes, raising items at '
          'generated positions. Oracle: sequential reference computed from the task programs; map equality, '
          'imap order, imap_unordered multiset, exception type/args/__cause__ RemoteTraceback naming the '
          'raising frame, failed-map error belongs to one of its own inputs, imap raises at the failing '
          'position and goes on (also chunked), empty input touches no worker.',
 'note': 'Trusted: the simulated kernel (simos) models Linux semaphores, pipes, poll, process table, signals '
         'and wait statuses faithfully (stub conformance: selftest/conformance.py); BaseProcess._bootstrap '
         'is replaced by a replica of its exit-code mapping (checked by C19); start method is spawn-like '
         '(pickled copy). Workers die uncatchably only inside task code or between jobs; pipes do not lose '
         'bytes. Sampling, not proof.',
 'ref': 'DESIGN.md 5 (C02), 3, 4 (S-POOL)'}
