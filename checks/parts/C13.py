"""Registry entry, manifest texts for C13."""

ENTRY = {'parts': [{'scenario': 'scenarios.s_conn', 'chunk': 20}],
         'quick': {'runs': 4000, 'budget': 40}, 'thorough': {'runs': 300000, 'budget': 900}}

TEXT = {'level': 'Seeded search over message sequences x kernel behaviours: the real Connection framing/send/recv '
          'loops run over simulated pipes and socket pairs whose reads and writes are split at '
          'scheduler-chosen byte counts, interrupted with EINTR, throttled by 64B..64KiB buffers, and whose '
          'peer closes at chosen byte offsets (header / payload / boundary); FIFO reference model of whole '
          'messages checked per receive (recv_bytes, recv_bytes_into, recv, poll), plus argument/state '
          'checks that must fail before any I/O (kernel I/O counter). Sampling, not proof.',
 'note': 'Trusted: a pipe/stream socket is a reliable byte FIFO as modelled by simos.kernel (cross-checked '
         'against os.pipe by selftest/conformance.py). Lengths near 2**31-1 are not allocated.',
 'ref': 'DESIGN.md 5 (C13), 4 (S-CONN)'}
