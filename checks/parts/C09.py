"""Registry entry, manifest texts for C09."""

ENTRY = {'parts': [{'scenario': 'scenarios.s_pool', 'chunk': 6}],
         'quick': {'runs': 2500, 'budget': 40}, 'thorough': {'runs': 150000, 'budget': 1200}}

TEXT = {'level': 'Seeded search over exit/grow/shrink/submission histories: maxtasksperchild 1-5, memory limit with '
          'simulated RSS, grow, shrink, crashes. Oracle: after every completed supervision pass (hook on '
          'Pool._maintain_pool) the pool holds exactly the target number of workers with distinct slot '
          'indices and never more un-dismissed live workers than the target at any step; per worker <= quota '
          'results, recycle status exactly at the quota or memory limit, no 30 s guard wait at recycling, no '
          'program executed twice, no job failed because a finished worker exited.',
 'note': 'Trusted: the simulated kernel (simos) models Linux semaphores, pipes, poll, process table, signals '
         'and wait statuses faithfully (stub conformance: selftest/conformance.py); BaseProcess._bootstrap '
         'is replaced by a replica of its exit-code mapping (checked by C19); start method is spawn-like '
         '(pickled copy). Workers die uncatchably only inside task code or between jobs; pipes do not lose '
         'bytes. Sampling, not proof.',
 'ref': 'DESIGN.md 5 (C09), 3, 4 (S-POOL)'}
