"""Registry entry, manifest texts for C01."""

ENTRY = {'parts': [{'scenario': 'scenarios.s_pool', 'chunk': 6}],
         'quick': {'runs': 2500, 'budget': 40}, 'thorough': {'runs': 150000, 'budget': 1200}}

TEXT = {'level': 'Seeded search over schedules x fault sequences of the whole pool (real Pool, 4 handler threads, '
          'real workers created by pickled spawn) on the simulated kernel: apply/map/imap jobs with unique '
          'values, callbacks on every handle, discard, two submitting threads; faults: in-task death by any '
          'signal / exit status at a chosen tick, unpicklable arguments (send failure), unpicklable results, '
          'hard limits, recycling. Oracle: shadow record per job - resolved exactly once with its own value '
          '/ the exception its program raised / a pool-made failure attributable to a really dead owner '
          '(wiretap of the result pipe), callbacks <= 1, outcome never changes once observable (checked '
          'after every scheduling step), no pool thread takes the host down, no cache leak, all jobs '
          'resolved within 250 simulated seconds.',
 'note': 'Trusted: the simulated kernel (simos) models Linux semaphores, pipes, poll, process table, signals '
         'and wait statuses faithfully (stub conformance: selftest/conformance.py); BaseProcess._bootstrap '
         'is replaced by a replica of its exit-code mapping (checked by C19); start method is spawn-like '
         '(pickled copy). Workers die uncatchably only inside task code or between jobs; pipes do not lose '
         'bytes. Sampling, not proof.',
 'ref': 'DESIGN.md 5 (C01), 3, 4 (S-POOL)'}
