"""Registry entry, manifest texts for C17."""

ENTRY = {'parts': [{'scenario': 'scenarios.s_sync', 'chunk': 40}],
         'quick': {'runs': 6000, 'budget': 40}, 'thorough': {'runs': 400000, 'budget': 900}}

TEXT = {'level': 'Seeded search over schedules (pre-emption at every semaphore operation; timeouts fire at '
          'scheduler-chosen instants) of billiard.synchronize Condition/Event/Lock/Semaphore code running '
          'unmodified on a simulated SemLock, in thread and in process (pickled-copy) mode; history oracle: '
          'every True wait matched to a distinct grant, untimed waiters owed a wake-up get it, timed-out '
          'waits return False only after the deadline, counters consistent at quiescence, Event.wait/is_set '
          'agree with the flag timeline. Sampling, not proof.',
 'note': 'Trusted: the real POSIX semaphore behaves like simos.objects.SimSemLock (cross-checked by '
         'selftest/conformance.py against _multiprocessing.SemLock); pre-emption granularity is one '
         'semaphore operation.',
 'ref': 'DESIGN.md 5 (C17), 3, 4 (S-SYNC)'}
