"""Registry entry, manifest texts for C15."""

ENTRY = {'parts': [{'scenario': 'scenarios.s_shm', 'chunk': 15}],
         'quick': {'runs': 4000, 'budget': 35}, 'thorough': {'runs': 300000, 'budget': 900}}

TEXT = {'level': 'Seeded search over object histories x schedules: the real sharedctypes/heap/synchronize code runs on '
          'the simulated SemLock, a simulated heap lock and fake arenas. Parent threads create (all type codes, two '
          'structures, arrays by length and by initialiser, every lock option), write, read and drop shared '
          'objects; storage is dirtied before each drop so that later objects land on recycled dirty memory; '
          'copies reach "child processes" through the real reduce_ctype/rebuild_ctype/reduce_arena pickling path '
          'over the same buffer; k threads+processes run N locked increments, and locked two-step updates race '
          'plain setters and readers. Oracle: a plain ctypes model per object (fresh value = initialiser or zeros, '
          'no object changes without its own write, parent<->child<->copy visibility), exact N*k counters, no '
          'foreign write or read of a provisional value inside a critical section; the C14 allocator invariants '
          'run as step invariants underneath. Sampling, not proof.',
 'note': 'Not decided here: that a real kernel keeps MAP_SHARED pages coherent between real processes (the fake '
         "arena shares one buffer). Type codes 'q'/'Q' are absent from this billiard's typecode table; the "
         'corresponding ctypes types are passed instead. Unlocked read-modify-write is not checked.',
 'ref': 'DESIGN.md 5 (C15), 4 (S-SHM)'}
