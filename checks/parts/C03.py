"""Registry entry, manifest texts for C03."""

ENTRY = {'parts': [{'scenario': 'scenarios.s_pool', 'chunk': 6}],
         'quick': {'runs': 2500, 'budget': 40}, 'thorough': {'runs': 150000, 'budget': 1200}}

TEXT = {'level': 'Seeded search over task sequences x quotas x message consumption orders with a wiretap on every '
          "worker's result pipe (messages decoded after the fact): per worker the stream is (ACK READY)* "
          'with the real pid and an acceptance time inside [worker start, message written], the program ran '
          'between the two messages, no second accept before the result; parent side: accept callback before '
          "result callback with the worker's arguments, owner recorded; quota: <= N jobs per worker, recycle "
          'status only at the quota; handshake clause with a Celery-like synack subclass: a job cancelled '
          'before its ACK is consumed is NACKed and never executes.',
 'note': 'Trusted: the simulated kernel (simos) models Linux semaphores, pipes, poll, process table, signals '
         'and wait statuses faithfully (stub conformance: selftest/conformance.py); BaseProcess._bootstrap '
         'is replaced by a replica of its exit-code mapping (checked by C19); start method is spawn-like '
         '(pickled copy). Workers die uncatchably only inside task code or between jobs; pipes do not lose '
         'bytes. Sampling, not proof.',
 'ref': 'DESIGN.md 5 (C03), 3, 4 (S-POOL)'}
