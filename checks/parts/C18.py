"""Registry entry, manifest texts for C18."""

ENTRY = {'parts': [{'scenario': 'scenarios.s_auth', 'chunk': 40}],
         'quick': {'runs': 6000, 'budget': 35}, 'thorough': {'runs': 400000, 'budget': 900}}

TEXT = {'level': 'Seeded search over key pairs (equal, one bit apart, prefix/extension, case, random, 1B..4KiB), '
          'honest x honest and honest x hostile handshakes on a simulated stream socket: the hostile side '
          'sends at each step a scripted message (correct/truncated/extended/bit-flipped/other-key/replayed '
          'digest, early WELCOME/FAILURE, oversize, empty, close, malformed challenge); oracle: a connection '
          "is returned iff the peer produced exactly HMAC(key, this connection's challenge) and the expected "
          'verdicts, both sides fail with AuthenticationError on different keys, each challenge is a fresh '
          'urandom(20) value that really went over the wire, non-bytes keys raise TypeError unused.',
 'note': 'Trusted: hmac/md5 from the standard library; cryptographic strength of HMAC-MD5 and relay of a '
         'digest computed by another honest key holder are outside the check.',
 'ref': 'DESIGN.md 5 (C18), 4 (S-AUTH)'}
