"""Registry entry, manifest texts for C16."""

ENTRY = {'parts': [{'scenario': 'scenarios.s_queue', 'chunk': 20}],
         'quick': {'runs': 3000, 'budget': 40}, 'thorough': {'runs': 300000, 'budget': 900}}

TEXT = {'level': 'Seeded search over workloads x schedules x kernel behaviours: the real Queue (incl. its feeder '
          'thread), JoinableQueue and SimpleQueue code runs unmodified on a simulated kernel with 1-3 producers '
          'and 1-3 consumers that are threads of the creator or simulated processes holding copies made '
          'through the real __getstate__/__setstate__ path; pipe capacity 64 B..64 KiB, items 1 B..3x the pipe '
          'capacity, reads and writes split at scheduler-chosen byte counts, EINTR, stalled actors, '
          'pre-emption at every semaphore/lock/pipe operation. Oracles: conservation (every accepted item '
          'returned exactly once, unchanged), per-producer order by the step of the last read made under the '
          'reader lock, capacity as a step invariant built from harness counters (and the semaphore range), '
          'Full only with the capacity semaphore at 0 / not before the put timeout, Empty not before the get '
          'timeout (1 ms granularity), join() returns only with an instant of unfinished == 0 inside the '
          'call and does return (no deadlock), surplus task_done raises ValueError. Sampling, not proof.',
 'note': 'Trusted: pipes and POSIX semaphores behave like simos.kernel/simos.objects. A producer process '
         'flushes its feeder (close(); join_thread()) before exiting because exit finalizers are not simulated. '
         'Not exercised: unpicklable items (kill the feeder), SimpleQueue.empty() (AttributeError on this tree), '
         'processes killed while holding a queue lock.',
 'ref': 'DESIGN.md 5 (C16), 4 (S-QUEUE); scenarios/s_queue.py module docstring'}
