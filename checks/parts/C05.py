"""Registry entry, manifest texts for C05."""

ENTRY = {'parts': [{'scenario': 'scenarios.s_pool', 'chunk': 6}],
         'quick': {'runs': 2500, 'budget': 40}, 'thorough': {'runs': 150000, 'budget': 1200}}

TEXT = {'level': 'Seeded search over limits x durations x scan/result races: pool-level and per-job hard limits, '
          'jobs whose duration straddles the limit by -2..+5 s, pool sizes 1-4 (incl. 1), maps sharing the '
          'pool, workers optionally process-group leaders (killpg branch). Oracle: a job running past '
          'accept+limit fails TimeLimitExceeded(limit) no later than one scan period (+0.15 s per job) after '
          'expiry and never before it, its pid is dead shortly after (TERM, then KILL), later jobs are '
          'served by a replacement, jobs without a limit / map jobs are never timed out, the per-job limit '
          'wins, the scanner thread never takes the host down.',
 'note': 'Trusted: the simulated kernel (simos) models Linux semaphores, pipes, poll, process table, signals '
         'and wait statuses faithfully (stub conformance: selftest/conformance.py); BaseProcess._bootstrap '
         'is replaced by a replica of its exit-code mapping (checked by C19); start method is spawn-like '
         '(pickled copy). Workers die uncatchably only inside task code or between jobs; pipes do not lose '
         'bytes. Sampling, not proof.',
 'ref': 'DESIGN.md 5 (C05), 3, 4 (S-POOL)'}
