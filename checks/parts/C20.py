"""Registry entry, manifest texts for C20."""

ENTRY = {'parts': [{'scenario': 'scenarios.s_mgr', 'chunk': 5}],
         'quick': {'runs': 1500, 'budget': 45}, 'thorough': {'runs': 200000, 'budget': 900}}

TEXT = {'level': 'Seeded search over schedules (pre-emption at every simulated kernel call: socket read/write/accept/'
          'connect, thread lock operations of the server, blocking referent calls) of the real managers.Server '
          '(accepter + one thread per connection, all actors) and 1-3 simulated client processes x 1-2 threads '
          'running generated programs of list/dict/Namespace/Value/Array/Lock/RLock/Semaphore/BoundedSemaphore/'
          'Event/Queue proxy operations (incl. str(), _getvalue(), +=, *=) with unique '
          'values, non-exposed method calls, proxy creation, pickle copies, hand-over to child processes '
          '(spawn-style and plain pickles, sender pinned until the receiver has rebuilt), drops in any order, '
          'and wrong-key clients (SyncManager.connect, Client, forged proxy, raw peers that skip or ignore the '
          'handshake), with short socket I/O. Oracles: per-object linearizability of single operations against '
          'the local Python object including the final referent state (WGL-style search, <= 16 operations per '
          'object), exception types re-raised, Server.id_to_refcount == number of live proxies at quiescence and '
          'an empty object table after the last drop, no operation on a live proxy answered with a RemoteError, '
          'AuthenticationError for every wrong key and no public server function run for such a connection, '
          'every client program finishes. Sampling, not proof.',
 'note': 'Trusted: atomicity of single list/dict/array operations under the GIL (pre-emption granularity is the '
         'kernel call, not the bytecode); the blocking referents (Lock, Queue, ...) are simulated equivalents of '
         'threading.Lock/queue.Queue; BaseManager.start() (fork of the server process) and Server.shutdown via '
         'the manager finalizer are not exercised, the server runs in a simulated process and is stopped by a '
         'direct shutdown request; a cyclic-GC pass is an explicit event. Known finding (known_findings.json): an '
         'RLock acquired through a proxy is lost when the thread drops another proxy of the same object.',
 'ref': 'DESIGN.md 5 (C20), 4 (S-MGR); simos/seams_mgr.py'}
