"""Registry entry, manifest texts for C10."""

ENTRY = {'parts': [{'scenario': 'scenarios.s_pool', 'chunk': 6, 'frac': 0.75},
                   {'scenario': 'scenarios.s_sem', 'chunk': 40, 'frac': 0.25}],
         'quick': {'runs': 3000, 'budget': 45}, 'thorough': {'runs': 200000, 'budget': 1200}}

TEXT = {'level': '(1) the real LaxBoundedSemaphore on a simulated condition variable under 2-4 actors issuing '
          'hold/try/extra release/grow/shrink/clear: value in [0, bound] at every step outside a resize, '
          'value == bound at rest. (2) the whole pool with putlocks=True and two submitters: semaphore never '
          'above its bound at any step, never more apply jobs in flight (result not yet written by its '
          'worker) than slots while no worker exits, and at rest - all jobs resolved - every slot is free '
          'again; faults: worker deaths, recycling, hard-limit kills followed by the late result, failed '
          'sends, grow/shrink.',
 'note': 'Trusted: the simulated kernel (simos) models Linux semaphores, pipes, poll, process table, signals '
         'and wait statuses faithfully (stub conformance: selftest/conformance.py); BaseProcess._bootstrap '
         'is replaced by a replica of its exit-code mapping (checked by C19); start method is spawn-like '
         '(pickled copy). Workers die uncatchably only inside task code or between jobs; pipes do not lose '
         'bytes. Sampling, not proof.',
 'ref': 'DESIGN.md 5 (C10), 4 (S-POOL, S-SEM)'}
