"""Registry entry, manifest texts for C12."""

ENTRY = {'parts': [{'scenario': 'scenarios.s_pool', 'chunk': 6, 'frac': 0.75},
                   {'scenario': 'scenarios.s_einfo', 'chunk': 50, 'frac': 0.25}],
         'quick': {'runs': 3000, 'budget': 45}, 'thorough': {'runs': 200000, 'budget': 1200}}

TEXT = {'level': '(1) inside the pool simulation, for every failed job: the ExceptionInfo that crossed pickle -> '
          'pipe -> unpickle has the original type and args (also BaseException subclasses, 1500-deep '
          'recursion -> RecursionError), traceback text naming the raising frame, a tb the traceback module '
          'formats and whose chain is bounded by the frame limit; an unserialisable (also nested) result '
          'yields MaybeEncodingError on that job from a worker that stays alive. (2) the two input-only '
          'clauses (depth sweep around the frame limit, stability under 0-4 further pickle round trips) are '
          'a seeded sweep without any simulation - labelled as such.',
 'note': 'Trusted: the simulated kernel (simos) models Linux semaphores, pipes, poll, process table, signals '
         'and wait statuses faithfully (stub conformance: selftest/conformance.py); BaseProcess._bootstrap '
         'is replaced by a replica of its exit-code mapping (checked by C19); start method is spawn-like '
         '(pickled copy). Workers die uncatchably only inside task code or between jobs; pipes do not lose '
         'bytes. Sampling, not proof.',
 'ref': 'DESIGN.md 5 (C12), 6'}
