"""Registry entry, manifest texts for C08."""

ENTRY = {'parts': [{'scenario': 'scenarios.s_pool', 'chunk': 6}],
         'quick': {'runs': 2500, 'budget': 40}, 'thorough': {'runs': 150000, 'budget': 1200}}

TEXT = {'level': 'Seeded search over worker states x termination paths: terminate(), terminate() twice, finalizer '
          'without terminate (drop), with-block, terminate_job, operator SIGTERM/SIGHUP/SIGQUIT to a worker '
          "that is idle / waiting for the queue lock / inside a program / inside the program's own except "
          'block; jobs queued and running; threads on/off. Oracle: terminate() returns within 60 simulated '
          's, then no worker pid is alive and (1 s later) no pool thread runs, outcomes observed before stay '
          'intact, a signalled worker executes no further program step, takes no further job, runs its exit '
          'callback and exits.',
 'note': 'Trusted: the simulated kernel (simos) models Linux semaphores, pipes, poll, process table, signals '
         'and wait statuses faithfully (stub conformance: selftest/conformance.py); BaseProcess._bootstrap '
         'is replaced by a replica of its exit-code mapping (checked by C19); start method is spawn-like '
         '(pickled copy). Workers die uncatchably only inside task code or between jobs; pipes do not lose '
         'bytes. Sampling, not proof.',
 'ref': 'DESIGN.md 5 (C08), 3, 4 (S-POOL)'}
