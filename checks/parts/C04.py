"""Registry entry, manifest texts for C04."""

ENTRY = {'parts': [{'scenario': 'scenarios.s_pool', 'chunk': 6}],
         'quick': {'runs': 2500, 'budget': 40}, 'thorough': {'runs': 150000, 'budget': 1200}}

TEXT = {'level': 'Seeded search over crash points x statuses x detection orders: 1-4 workers, jobs of every kind '
          '(apply, map, starmap, imap, imap_unordered), a worker dies at a generated tick inside an item '
          "(SIGKILL, SIGSEGV, catchable signals, os._exit with any status, also inside the task's own except "
          'block); supervisor tick, result handler and death are ordered by the scheduler. Oracle: the job '
          'whose program was executing in the dead pid ends WorkerLostError naming the exit status, no job '
          'without a dead unfinished owner does, resolution is in (T, T + one period] after detection, the '
          'pool is back at size, every handle kind reports the loss (no waiting forever: deadlock detector + '
          'liveness bound).',
 'note': 'Trusted: the simulated kernel (simos) models Linux semaphores, pipes, poll, process table, signals '
         'and wait statuses faithfully (stub conformance: selftest/conformance.py); BaseProcess._bootstrap '
         'is replaced by a replica of its exit-code mapping (checked by C19); start method is spawn-like '
         '(pickled copy). Workers die uncatchably only inside task code or between jobs; pipes do not lose '
         'bytes. Sampling, not proof.',
 'ref': 'DESIGN.md 5 (C04), 3, 4 (S-POOL)'}
