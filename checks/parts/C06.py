"""Registry entry, manifest texts for C06."""

ENTRY = {'parts': [{'scenario': 'scenarios.s_pool', 'chunk': 6}],
         'quick': {'runs': 2500, 'budget': 40}, 'thorough': {'runs': 150000, 'budget': 1200}}

TEXT = {'level': 'Seeded search over soft/hard limit combinations x durations x scans: long jobs over many scan '
          'periods, programs that catch SoftTimeLimitExceeded and return. The kernel records every SIGUSR1 '
          '(sender, target, instant). Oracle: per job at most one SIGUSR1 on its behalf, none without a soft '
          'limit, none after its result was processed, exactly one (and the exception surfacing inside that '
          "job's program) when a scan fell into [accept+soft, accept+hard) while it ran, "
          'timeout_callback(soft=True, timeout=effective limit) once, a caught soft limit delivers the value '
          'normally, per-job limit beats pool default.',
 'note': 'Trusted: the simulated kernel (simos) models Linux semaphores, pipes, poll, process table, signals '
         'and wait statuses faithfully (stub conformance: selftest/conformance.py); BaseProcess._bootstrap '
         'is replaced by a replica of its exit-code mapping (checked by C19); start method is spawn-like '
         '(pickled copy). Workers die uncatchably only inside task code or between jobs; pipes do not lose '
         'bytes. Sampling, not proof.',
 'ref': 'DESIGN.md 5 (C06), 3, 4 (S-POOL)'}
