"""Registry entry, manifest texts for C06."""

ENTRY = {'parts': [{'scenario': 'scenarios.s_pool', 'chunk': 6}],
         'quick': {'runs': 2500, 'budget': 60}, 'thorough': {'runs': 150000, 'budget': 1200}}

TEXT = {'level': 'TODO', 'ref': 'DESIGN.md 5 (C06), 4 (S-POOL)', 'note': 'TODO'}

ENABLED = False
