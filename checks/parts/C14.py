"""Registry entry, manifest texts for C14."""

ENTRY = {'parts': [{'scenario': 'scenarios.s_heap', 'chunk': 15}],
         'quick': {'runs': 4000, 'budget': 35}, 'thorough': {'runs': 300000, 'budget': 900}}

TEXT = {'level': 'Seeded search over malloc/free histories x schedules: the real billiard.heap.Heap and BufferWrapper '
          'run on a simulated lock and fake arenas; 1-3 threads issue malloc(0..several pages)/free in generated '
          'orders, frees arrive from other threads at every lock operation and re-entrantly from the allocating '
          'thread while it holds the heap lock (the GC/Finalize case), arena creation fails at planned calls. '
          'Invariants evaluated after every scheduling step at which the heap lock is free: live+free blocks tile '
          'every arena exactly, live blocks are large enough / 8-aligned / inside their arena / pairwise disjoint, '
          'no two adjacent free blocks, the four free-list indexes agree, a new arena only when no free block '
          'fits, per-block byte patterns stay intact until the block is freed. Sampling, not proof.',
 'note': 'Trusted: threading.Lock behaves like simos.objects.SimLock; list.append/pop are atomic under the GIL '
         '(heap.py relies on it); a fresh mapping is zero-filled. Real mmap/temp-file creation is replaced by '
         'simos.seams_heap.FakeArena.',
 'ref': 'DESIGN.md 5 (C14), 4 (S-HEAP)'}
