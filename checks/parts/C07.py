"""Registry entry, manifest texts for C07."""

ENTRY = {'parts': [{'scenario': 'scenarios.s_pool', 'chunk': 6}],
         'quick': {'runs': 2500, 'budget': 40}, 'thorough': {'runs': 150000, 'budget': 1200}}

TEXT = {'level': 'Seeded search over job mixes x close() instants x recycling settings, with and without helper '
          'threads: close() at a generated step relative to job progress, then join(). Oracle: every job '
          'submitted before close resolves with its real result, submissions after close get no handle, '
          'join() returns (deadlock detector / horizon), no worker waits out its 30 s result-consumption '
          'guard while the parent consumes (probe wrapped around Worker._ensure_messages_consumed, not a '
          'stopwatch), join tail < 25 s, afterwards every worker pid is dead and reaped and supervisor / '
          'task / result threads have ended.',
 'note': 'Trusted: the simulated kernel (simos) models Linux semaphores, pipes, poll, process table, signals '
         'and wait statuses faithfully (stub conformance: selftest/conformance.py); BaseProcess._bootstrap '
         'is replaced by a replica of its exit-code mapping (checked by C19); start method is spawn-like '
         '(pickled copy). Workers die uncatchably only inside task code or between jobs; pipes do not lose '
         'bytes. Sampling, not proof.',
 'ref': 'DESIGN.md 5 (C07), 3, 4 (S-POOL)'}
