"""Seams for billiard/managers.py (S-MGR, property C20).

install_mgr() plugs managers.py onto the simulated kernel:

* billiard.managers.threading -> a shim whose Thread swallows SystemExit the way
  threading.Thread does (Server.serve_client ends its thread with sys.exit), so the
  accepter thread and every per-connection thread of Server become actors; Lock /
  RLock / Event / current_thread are the simulated ones.
* billiard.managers.monotonic / Queue / sys -> simulated clock, simulated FIFO, sys shim.
* the blocking referents of SyncManager (Lock, RLock, Semaphore, BoundedSemaphore,
  Condition, Event, Barrier, Queue, JoinableQueue) are re-registered with classes living on
  the simulated kernel, so a proxy call that blocks in the server blocks a server *actor*.

Decisions for the remaining process-global state of managers.py are taken per run by
per_process_state(k): see its docstring.  Everything goes through seams._set, so
seams.restore() puts the shipped behaviour back.
"""
import queue as _queue

from . import state
from . import objects as O
from . import seams


# ---------------------------------------------------------------------- threads
class MgrThread(O.SimThread):
    """SimThread with threading.Thread's treatment of SystemExit (silently ends the thread)."""

    def run(self):
        try:
            O.SimThread.run(self)
        except SystemExit:
            pass


class MgrThreadingShim(seams.ThreadingShim):
    Thread = MgrThread


threading_shim = MgrThreadingShim()


# ---------------------------------------------------------------------- referents
def _inside(obj, delta):
    """Count server actors inside blocking referent methods (probe only)."""
    n = obj.__dict__.get('_mgr_inside', 0) + delta
    obj.__dict__['_mgr_inside'] = n
    if delta > 0 and n >= 2:
        state.K.probe('two_server_threads_in_one_referent')


class MgrLock(O.SimLock):
    """threading.Lock referent.  acquire(blocking, timeout) as threading.Lock takes it."""

    def acquire(self, blocking=True, timeout=-1):
        _inside(self, +1)
        try:
            k = state.K
            if self._locked and blocking:
                k.probe('blocking_call_blocked_in_server')
            return O.SimLock.acquire(self, blocking, timeout)
        finally:
            _inside(self, -1)

    __enter__ = acquire


class MgrRLock(O.SimRLock):
    pass


class MgrSemaphore(O.SimSemaphore):
    pass


class MgrBoundedSemaphore(O.SimSemaphore):
    def __init__(self, value=1):
        O.SimSemaphore.__init__(self, value)
        self._initial_value = value

    def release(self, n=1):
        with self._cond:
            if self._value + n > self._initial_value:
                raise ValueError('Semaphore released too many times')
            self._value += n
            self._cond.notify(n)


class MgrQueue(O.SimQueue):
    """queue.Queue referent (FIFO on the simulated kernel)."""

    def get(self, block=True, timeout=None):
        _inside(self, +1)
        try:
            if block and not self.queue:
                state.K.probe('blocking_call_blocked_in_server')
            return O.SimQueue.get(self, block, timeout)
        finally:
            _inside(self, -1)

    def put(self, item, block=True, timeout=None):
        _inside(self, +1)
        try:
            return O.SimQueue.put(self, item, block, timeout)
        finally:
            _inside(self, -1)


class MgrBarrier:
    """Minimal threading.Barrier on the simulated kernel (wait/abort/reset/parties/n_waiting/broken)."""

    def __init__(self, parties, action=None, timeout=None):
        self._cond = O.SimCondition(O.SimLock())
        self._parties = parties
        self._action = action
        self._timeout = timeout
        self._count = 0
        self._gen = 0
        self._broken = False

    def wait(self, timeout=None):
        import threading as _t
        if timeout is None:
            timeout = self._timeout
        with self._cond:
            if self._broken:
                raise _t.BrokenBarrierError
            gen = self._gen
            index = self._count
            self._count += 1
            if self._count == self._parties:
                if self._action is not None:
                    self._action()
                self._count = 0
                self._gen += 1
                self._cond.notify_all()
                return index
            ok = self._cond.wait_for(lambda: self._gen != gen or self._broken, timeout)
            if not ok or (self._broken and self._gen == gen):
                self._broken = True
                self._cond.notify_all()
                raise _t.BrokenBarrierError
            return index

    def abort(self):
        with self._cond:
            self._broken = True
            self._cond.notify_all()

    def reset(self):
        with self._cond:
            if self._count:
                self._broken = True
                self._cond.notify_all()
            self._broken = False
            self._count = 0
            self._gen += 1

    parties = property(lambda self: self._parties)
    n_waiting = property(lambda self: self._count)
    broken = property(lambda self: self._broken)


SIM_REFERENTS = {
    'Queue': MgrQueue, 'JoinableQueue': MgrQueue, 'Event': O.SimEvent, 'Lock': MgrLock, 'RLock': MgrRLock,
    'Semaphore': MgrSemaphore, 'BoundedSemaphore': MgrBoundedSemaphore, 'Condition': O.SimCondition,
    'Barrier': MgrBarrier,
}


# ---------------------------------------------------------------------- install
def install_mgr():
    if 'mgr' in seams._installed:
        return
    seams.install_conn()
    seams._installed.add('mgr')
    import billiard.managers as M
    seams._set(M, 'threading', threading_shim)
    seams._set(M, 'monotonic', seams.monotonic)
    seams._set(M, 'Queue', MgrQueue)
    seams._set(M, 'sys', seams.sys_shim)
    # re-register the blocking referents: same typeid, same proxy type, same exposed
    # list, only the callable changes.  The registry dict is replaced by a patched copy.
    reg = dict(M.SyncManager._registry)
    for typeid, cls in SIM_REFERENTS.items():
        if typeid in reg:
            _callable, exposed, m2t, proxytype = reg[typeid]
            reg[typeid] = (cls, exposed, m2t, proxytype)
    seams._set(M.SyncManager, '_registry', reg)


def per_process_state(k, authkey_of):
    """Make the process-global state of managers.py / process.py private per simulated process.

    * billiard.process._current_process: serve_forever stores `_manager_server` on it and
      RebuildProxy reads it (a client sharing that object with the server would unpickle a
      proxy into the raw referent); BaseManager/BaseProxy/AutoProxy read `.authkey` from it
      when no key travels with the pickle.  authkey_of(proc) -> bytes gives each simulated
      process its inherited key.
    * BaseProxy._address_to_local: address -> (thread-local connection holder, set of ids this
      *process* holds references to); _decref closes the thread's connection when the set is
      empty, so it must not be shared between simulated processes.
    Left shared on purpose: BaseProxy._mutex (a real lock held over a dict lookup only, no kernel
    call inside, so never contended), util._finalizer_registry / _afterfork_registry (keyed by
    counters, weak), MakeProxyType's type cache (pure function of its key), thread-locals
    (actors are real threads).
    """
    import billiard.process as P
    import billiard.managers as M
    main_type = type(P._current_process)

    def new_current(proc):
        cp = main_type()
        cp._name = proc.name
        cp._config['authkey'] = P.AuthenticationString(authkey_of(proc))
        return cp
    k.add_per_proc_global(P, '_current_process', new_current)
    k.add_per_proc_global(M.BaseProxy, '_address_to_local', lambda proc: {})
