"""Seams for billiard.queues (S-QUEUE, property C16).

install_queue() plugs the three module attributes queues.py uses to talk to the
operating system onto the simulated kernel:

    billiard.queues.threading -> seams.threading_shim   the feeder thread becomes an actor,
                                                         Queue._notempty a simulated condition
    billiard.queues.monotonic -> seams.monotonic         deadline of a timed get
    billiard.queues.os        -> seams.os_shim           os.getpid() in __init__/_start_thread

Everything else a queue needs is already simulated: the pipe and poll() through
seams.install_conn(), the locks and semaphores through seams.install_sync().
The change is recorded with seams._set, so seams.restore() undoes it.
"""
from . import seams


def install_queue():
    if 'queue' in seams._installed:
        return
    seams._installed.add('queue')
    import billiard.queues as Q
    seams._set(Q, 'threading', seams.threading_shim)
    seams._set(Q, 'monotonic', seams.monotonic)
    seams._set(Q, 'os', seams.os_shim)
