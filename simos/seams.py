"""Seams: plug billiard's modules onto the simulated kernel by assignment from
outside (module attributes, class attributes, function __defaults__).

install_*() functions are idempotent; everything they change is recorded so
that restore() can put the shipped behaviour back (used by the self-tests).
"""
import errno
import os as _os
import signal as _signal
import socket as _socket
import sys as _sys
import time as _time
import threading as _threading

from . import state
from . import objects as O

_saved = []          # (obj, attr, old)
_installed = set()
_MISSING = object()


def _set(obj, attr, new):
    old = obj.__dict__.get(attr, _MISSING) if isinstance(obj, type) else getattr(obj, attr, _MISSING)
    _saved.append((obj, attr, old))
    setattr(obj, attr, new)


def restore():
    while _saved:
        obj, attr, old = _saved.pop()
        if old is _MISSING:
            try:
                delattr(obj, attr)
            except AttributeError:
                pass
        else:
            setattr(obj, attr, old)
    _installed.clear()


# ---------------------------------------------------------------------- shims
def monotonic():
    return state.K.now


class TimeShim:
    monotonic = staticmethod(monotonic)
    time = staticmethod(monotonic)

    @staticmethod
    def sleep(d):
        state.K.sleep(d)

    def __getattr__(self, n):
        return getattr(_time, n)


class OsShim:
    """os replacement for billiard modules: process/fd calls go to the kernel."""

    def __getattr__(self, n):
        return getattr(_os, n)

    @staticmethod
    def getpid():
        return state.K.getpid()

    @staticmethod
    def kill(pid, sig):
        return state.K.kill(pid, sig)

    @staticmethod
    def killpg(pgid, sig):
        return state.K.killpg(pgid, sig)

    @staticmethod
    def getpgid(pid):
        return state.K.getpgid(pid)

    @staticmethod
    def _exit(code):
        state.K.exit_now(code)

    @staticmethod
    def waitpid(pid, flags):
        return state.K.waitpid(pid, flags)

    @staticmethod
    def pipe():
        return state.K.pipe()

    @staticmethod
    def close(fd):
        return state.K.close(fd)

    @staticmethod
    def read(fd, n):
        return state.K.read(fd, n)

    @staticmethod
    def write(fd, data):
        return state.K.write(fd, data)

    @staticmethod
    def urandom(n):
        return state.K.urandom(n)

    @staticmethod
    def unlink(path):
        return None


class SignalShim:
    def __getattr__(self, n):
        return getattr(_signal, n)

    @staticmethod
    def signal(signum, handler):
        return state.K.signal_set(signum, handler)

    @staticmethod
    def getsignal(signum):
        return state.K.signal_get(signum)


class SysShim:
    """sys replacement with a per-process `exit` slot (Worker.__call__ assigns sys.exit)."""

    def __getattr__(self, n):
        return getattr(_sys, n)

    @property
    def exit(self):
        p = state.K.cur_proc_obj()
        return p.exit_slot or _sys.exit

    @exit.setter
    def exit(self, fn):
        state.K.cur_proc_obj().exit_slot = fn


class ThreadingShim:
    Lock = O.SimLock
    RLock = O.SimRLock
    Condition = O.SimCondition
    Event = O.SimEvent
    Semaphore = O.SimSemaphore
    Thread = O.SimThread
    current_thread = staticmethod(O.current_thread)
    currentThread = staticmethod(O.current_thread)
    TIMEOUT_MAX = _threading.TIMEOUT_MAX

    def __getattr__(self, n):
        return getattr(_threading, n)


os_shim = OsShim()
time_shim = TimeShim()
signal_shim = SignalShim()
sys_shim = SysShim()
threading_shim = ThreadingShim()


# ---------------------------------------------------------------------- synchronize
def install_sync():
    if 'sync' in _installed:
        return
    _installed.add('sync')
    import billiard.synchronize as S
    _set(S, '_billiard', O._BilliardExt)
    _set(S, 'sem_unlink', O.sem_unlink)
    _set(S, 'monotonic', monotonic)
    _set(S, 'threading', threading_shim)


# ---------------------------------------------------------------------- sockets for connection.py
class SimSocket:
    def __init__(self, family=None, type=None, proto=0, fileno=None):
        self.family = family
        self._fd = fileno
        self._addr = None
        self._listening = False

    def fileno(self):
        return self._fd

    def setblocking(self, flag):
        if self._fd is not None:
            state.K.set_nonblock(self._fd, not flag)
        else:
            self._nb = not flag

    def setsockopt(self, *a):
        pass

    def bind(self, addr):
        self._addr = addr

    def listen(self, backlog=1):
        self._fd = state.K.listen(self._addr)
        self._listening = True

    def getsockname(self):
        return self._addr

    def accept(self):
        fd = state.K.accept(self._fd)
        return SimSocket(self.family, fileno=fd), None

    def connect(self, addr):
        self._fd = state.K.connect(addr)

    def detach(self):
        fd, self._fd = self._fd, None
        return fd

    def close(self):
        if self._fd is not None:
            fd, self._fd = self._fd, None
            state.K.close(fd, quiet=True)


class SocketShim:
    socket = SimSocket
    error = _socket.error

    def __getattr__(self, n):
        return getattr(_socket, n)

    @staticmethod
    def socketpair():
        a, b = state.K.socketpair()
        return (SimSocket(_socket.AF_UNIX, fileno=a), SimSocket(_socket.AF_UNIX, fileno=b))


socket_shim = SocketShim()
_addr_counter = [0]


def _sim_poll(fds, timeout):
    fd_map = {}
    nums = []
    for fd in fds:
        n = fd.fileno() if hasattr(fd, 'fileno') else fd
        fd_map[n] = fd
        nums.append(n)
    if timeout is not None:
        timeout = int(timeout * 1000) / 1000.0      # poll(2) takes whole milliseconds
    ready = state.K.poll(nums, timeout)
    return [fd_map[n] for n in ready]


def _sim_setblocking(fd, blocking):
    state.K.set_nonblock(fd, not blocking)


def _sim_arbitrary_address(family):
    a = state.K
    a.cfg['_addr'] = a.cfg.get('_addr', 0) + 1
    return 'sim-listener-%d' % a.cfg['_addr']


def _quiet_del(self):
    h = self._handle
    if h is not None:
        k = state.K
        if k is not None:
            try:
                k.close(h, quiet=True)
            except BaseException:   # noqa
                pass
        self._handle = None


def install_conn():
    if 'conn' in _installed:
        return
    _installed.add('conn')
    import billiard.connection as C
    _set(C, 'os', os_shim)
    _set(C, 'socket', socket_shim)
    _set(C, '_poll', _sim_poll)
    _set(C, 'monotonic', monotonic)
    _set(C, 'setblocking', _sim_setblocking)
    _set(C, 'arbitrary_address', _sim_arbitrary_address)
    Conn = C.Connection
    _set(Conn._send, '__defaults__', (os_shim.write,))
    _set(Conn._recv, '__defaults__', (os_shim.read,))
    _set(Conn._close, '__defaults__', (os_shim.close,))
    _set(C._ConnectionBase, '__del__', _quiet_del)
    import billiard.compat as compat
    _set(compat, '__write__', os_shim.write)
