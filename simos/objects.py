"""User-visible objects backed by the simulated kernel: SemLock, thread locks,
conditions, events, FIFO queues, threads.  They look up the *current* kernel
through simos.state.K so that module-level seams can be installed once."""
import collections
import queue as _queue

from . import state
from .kernel import SimDead, SimAbort  # noqa

RECURSIVE_MUTEX, SEMAPHORE = 0, 1


def K():
    return state.K


# ---------------------------------------------------------------------- SemLock
class SimSemLock:
    """Stand-in for _multiprocessing.SemLock (per-process handle onto a kernel semaphore).

    Semantics copied from CPython's Modules/_multiprocessing/semaphore.c (POSIX branch)
    and cross-checked against the real object by selftest/conformance.py.
    """
    SEM_VALUE_MAX = 2147483647

    def __init__(self, kind, value, maxvalue, name=None, unlink=False, _ksem=None):
        k = state.K
        if _ksem is None:
            if kind not in (RECURSIVE_MUTEX, SEMAPHORE):
                raise ValueError('unrecognized kind')
            if value < 0 or value > maxvalue:
                raise ValueError('invalid value')
            _ksem = k.sem_create(kind, value, maxvalue)
        self._s = _ksem
        self.handle = _ksem.id
        self.kind = _ksem.kind
        self.maxvalue = _ksem.maxvalue
        self.name = None
        self._cnt = 0
        self._last = None

    # -- helpers
    def _ismine(self, a):
        return self._cnt > 0 and self._last is a

    def acquire(self, block=True, timeout=None):
        k = state.K
        a = k.enter('sem-acquire')
        s = self._s
        if self.kind == RECURSIVE_MUTEX and self._ismine(a):
            self._cnt += 1
            k.record('sem-acq', s.id, 'rec')
            return True
        if s.value > 0:
            s.value -= 1
        else:
            if not block:
                k.record('sem-acq', s.id, False)
                return False
            if timeout is not None and timeout <= 0:
                k.record('sem-acq', s.id, False)
                return False
            deadline = None if timeout is None else k.now + timeout
            k.probe('sem_blocked')
            ok = k.wait_until(a, lambda: s.value > 0, deadline, 'sem:%d' % s.id)
            if not ok:
                k.record('sem-acq', s.id, 'timeout')
                return False
            s.value -= 1
        self._cnt += 1
        self._last = a
        k.record('sem-acq', s.id, True)
        return True

    def release(self):
        k = state.K
        a = k.enter('sem-release', deliver=False)
        s = self._s
        if self.kind == RECURSIVE_MUTEX:
            if not self._ismine(a):
                raise AssertionError('attempt to release recursive lock not owned by thread')
            if self._cnt > 1:
                self._cnt -= 1
                k.record('sem-rel', s.id, 'rec')
                k.after_nonblocking(a)
                return
        else:
            if s.value >= s.maxvalue:
                raise ValueError('semaphore or lock released too many times')
        s.value += 1
        self._cnt -= 1
        k.record('sem-rel', s.id, s.value)
        k.after_nonblocking(a)

    def __enter__(self):
        return self.acquire()

    def __exit__(self, *exc):
        self.release()

    def _count(self):
        return self._cnt

    def _is_mine(self):
        a = state.K.cur()
        return self._ismine(a)

    def _get_value(self):
        k = state.K
        a = k.enter('sem-getvalue', deliver=False)
        v = self._s.value
        k.after_nonblocking(a)
        return v

    def _is_zero(self):
        k = state.K
        a = k.enter('sem-iszero', deliver=False)
        v = self._s.value == 0
        k.after_nonblocking(a)
        return v

    def _after_fork(self):
        self._cnt = 0

    @staticmethod
    def _rebuild(handle, kind, maxvalue, name=None):
        s = state.K.sems[handle]
        return SimSemLock(kind, 0, maxvalue, _ksem=s)


class _BilliardExt:
    """Replacement for billiard.synchronize._billiard."""
    SemLock = SimSemLock


def sem_unlink(name):
    return None


# ---------------------------------------------------------------------- thread-level primitives
class SimLock:
    """threading.Lock on the simulated kernel."""

    def __init__(self):
        self._locked = False
        self._owner = None

    def acquire(self, blocking=True, timeout=-1):
        k = state.K
        a = k.enter('lock-acquire')
        if self._locked:
            if not blocking:
                return False
            deadline = None
            if timeout is not None and timeout >= 0:
                deadline = k.now + timeout
            ok = k.wait_until(a, lambda: not self._locked, deadline, 'lock', interruptible=False)
            if not ok:
                return False
        self._locked = True
        self._owner = a
        return True

    def release(self):
        k = state.K
        k.enter('lock-release')
        if not self._locked:
            raise RuntimeError('release unlocked lock')
        self._locked = False
        self._owner = None

    def locked(self):
        return self._locked

    __enter__ = acquire

    def __exit__(self, *exc):
        self.release()


class SimRLock:
    def __init__(self):
        self._owner = None
        self._count = 0

    @property
    def _locked(self):          # same read-only view as SimLock gives (monitors look at it)
        return self._owner is not None

    def acquire(self, blocking=True, timeout=-1):
        k = state.K
        a = k.enter('rlock-acquire')
        if self._owner is a:
            self._count += 1
            return True
        if self._owner is not None:
            if not blocking:
                return False
            deadline = None
            if timeout is not None and timeout >= 0:
                deadline = k.now + timeout
            ok = k.wait_until(a, lambda: self._owner is None, deadline, 'rlock', interruptible=False)
            if not ok:
                return False
        self._owner = a
        self._count = 1
        return True

    def release(self):
        k = state.K
        a = k.enter('rlock-release')
        if self._owner is not a:
            raise RuntimeError('cannot release un-acquired lock')
        self._count -= 1
        if self._count == 0:
            self._owner = None

    __enter__ = acquire

    def __exit__(self, *exc):
        self.release()

    # used by SimCondition
    def _release_save(self):
        a = state.K.cur()
        if self._owner is not a:
            raise RuntimeError('cannot release un-acquired lock')
        c = self._count
        self._count = 0
        self._owner = None
        return c

    def _acquire_restore(self, c):
        self.acquire()
        self._count = c

    def _is_owned(self):
        return self._owner is state.K.cur()


class SimCondition:
    """threading.Condition on the simulated kernel."""

    def __init__(self, lock=None):
        if lock is None:
            lock = SimRLock()
        self._lock = lock
        self.acquire = lock.acquire
        self.release = lock.release
        self._waiters = collections.deque()

    def __enter__(self):
        return self._lock.__enter__()

    def __exit__(self, *exc):
        return self._lock.__exit__(*exc)

    def _is_owned(self):
        lk = self._lock
        if isinstance(lk, SimRLock):
            return lk._is_owned()
        return lk._locked

    def wait(self, timeout=None):
        k = state.K
        if not self._is_owned():
            raise RuntimeError('cannot wait on un-acquired lock')
        a = k.enter('cond-wait')
        token = [False]
        self._waiters.append(token)
        lk = self._lock
        saved = None
        if isinstance(lk, SimRLock):
            saved = lk._release_save()
        else:
            lk._locked = False
            lk._owner = None
        deadline = None if timeout is None else k.now + max(0.0, timeout)
        try:
            ok = k.wait_until(a, lambda: token[0], deadline, 'cond', interruptible=False)
            if not ok:
                try:
                    self._waiters.remove(token)
                except ValueError:
                    pass
            return ok
        finally:
            # re-acquire (not a fresh pre-emption point: we are already scheduled)
            if isinstance(lk, SimRLock):
                if lk._owner is not None:
                    k.wait_until(a, lambda: lk._owner is None, None, 'cond-reacquire', interruptible=False)
                lk._owner = a
                lk._count = saved
            else:
                if lk._locked:
                    k.wait_until(a, lambda: not lk._locked, None, 'cond-reacquire', interruptible=False)
                lk._locked = True
                lk._owner = a

    def wait_for(self, predicate, timeout=None):
        k = state.K
        endtime = None
        waittime = timeout
        result = predicate()
        while not result:
            if waittime is not None:
                if endtime is None:
                    endtime = k.now + waittime
                else:
                    waittime = endtime - k.now
                    if waittime <= 0:
                        break
            self.wait(waittime)
            result = predicate()
        return result

    def notify(self, n=1):
        k = state.K
        if not self._is_owned():
            raise RuntimeError('cannot notify on un-acquired lock')
        k.enter('cond-notify')
        while n > 0 and self._waiters:
            self._waiters.popleft()[0] = True
            n -= 1

    def notify_all(self):
        self.notify(len(self._waiters))

    notifyAll = notify_all


class SimEvent:
    def __init__(self):
        self._cond = SimCondition(SimLock())
        self._flag = False

    def is_set(self):
        return self._flag

    isSet = is_set

    def set(self):
        with self._cond:
            self._flag = True
            self._cond.notify_all()

    def clear(self):
        with self._cond:
            self._flag = False

    def wait(self, timeout=None):
        with self._cond:
            signaled = self._flag
            if not signaled:
                signaled = self._cond.wait(timeout)
            return signaled


class SimSemaphore:
    def __init__(self, value=1):
        if value < 0:
            raise ValueError('semaphore initial value must be >= 0')
        self._cond = SimCondition(SimLock())
        self._value = value

    def acquire(self, blocking=True, timeout=None):
        k = state.K
        rc = False
        endtime = None
        with self._cond:
            while self._value == 0:
                if not blocking:
                    break
                if timeout is not None:
                    if endtime is None:
                        endtime = k.now + timeout
                    else:
                        timeout = endtime - k.now
                        if timeout <= 0:
                            break
                self._cond.wait(timeout)
            else:
                self._value -= 1
                rc = True
        return rc

    __enter__ = acquire

    def release(self, n=1):
        with self._cond:
            self._value += n
            self._cond.notify(n)

    def __exit__(self, *exc):
        self.release()


class SimQueue:
    """queue.Queue on the simulated kernel (FIFO; maxsize honoured)."""
    Empty = _queue.Empty
    Full = _queue.Full

    def __init__(self, maxsize=0):
        self.maxsize = maxsize
        self.queue = collections.deque()
        self.mutex = SimLock()
        self.not_empty = SimCondition(self.mutex)
        self.not_full = SimCondition(self.mutex)
        self.all_tasks_done = SimCondition(self.mutex)
        self.unfinished_tasks = 0

    def qsize(self):
        return len(self.queue)

    def empty(self):
        return not self.queue

    def full(self):
        return 0 < self.maxsize <= len(self.queue)

    def put(self, item, block=True, timeout=None):
        k = state.K
        with self.not_full:
            if self.maxsize > 0:
                if not block:
                    if len(self.queue) >= self.maxsize:
                        raise _queue.Full
                elif timeout is None:
                    while len(self.queue) >= self.maxsize:
                        self.not_full.wait()
                else:
                    endtime = k.now + timeout
                    while len(self.queue) >= self.maxsize:
                        remaining = endtime - k.now
                        if remaining <= 0.0:
                            raise _queue.Full
                        self.not_full.wait(remaining)
            self.queue.append(item)
            self.unfinished_tasks += 1
            self.not_empty.notify()

    def get(self, block=True, timeout=None):
        k = state.K
        with self.not_empty:
            if not block:
                if not self.queue:
                    raise _queue.Empty
            elif timeout is None:
                while not self.queue:
                    self.not_empty.wait()
            else:
                endtime = k.now + timeout
                while not self.queue:
                    remaining = endtime - k.now
                    if remaining <= 0.0:
                        raise _queue.Empty
                    self.not_empty.wait(remaining)
            item = self.queue.popleft()
            self.not_full.notify()
            return item

    def put_nowait(self, item):
        return self.put(item, block=False)

    def get_nowait(self):
        return self.get(block=False)

    def task_done(self):
        with self.all_tasks_done:
            unfinished = self.unfinished_tasks - 1
            if unfinished <= 0:
                if unfinished < 0:
                    raise ValueError('task_done() called too many times')
                self.all_tasks_done.notify_all()
            self.unfinished_tasks = unfinished

    def join(self):
        with self.all_tasks_done:
            while self.unfinished_tasks:
                self.all_tasks_done.wait()


class SimThread:
    """threading.Thread on the simulated kernel."""
    _counter = 0

    def __init__(self, group=None, target=None, name=None, args=(), kwargs=None, daemon=None):
        self._target = target
        self._args = args
        self._kwargs = kwargs or {}
        self.name = name or 'Thread'
        self.daemon = bool(daemon)
        self._actor = None
        self._started = False
        self.ident = None

    def run(self):
        if self._target is not None:
            self._target(*self._args, **self._kwargs)

    def start(self):
        if self._started:
            raise RuntimeError('threads can only be started once')
        self._started = True
        self._actor = state.K.spawn_thread(self.run, self.name, thread_obj=self)
        self.ident = self._actor.tid

    def join(self, timeout=None):
        if not self._started:
            raise RuntimeError('cannot join thread before it is started')
        state.K.join_actor(self._actor, timeout)

    def is_alive(self):
        return self._started and self._actor.state != 'done'

    isAlive = is_alive

    def getName(self):
        return self.name

    def setDaemon(self, d):
        self.daemon = d


class _MainThreadObj:
    name = 'MainThread'
    daemon = False
    ident = 0

    def is_alive(self):
        return True


_main_thread_obj = _MainThreadObj()


def current_thread():
    a = state.K.cur() if state.K is not None else None
    if a is None:
        return _main_thread_obj
    if a.thread_obj is not None:
        return a.thread_obj
    if a is a.proc.main:
        t = a.proc.info.get('_main_thread_obj')
        if t is None:
            t = _MainThreadObj()
            a.proc.info['_main_thread_obj'] = t
        return t
    t = SimThread(name=a.name)
    t._started = True
    t._actor = a
    a.thread_obj = t
    return t
