"""simos - a small simulated kernel for running billiard under a seeded scheduler.

See /verif/DESIGN.md section 3.  Nothing in here imports billiard; the seams
that plug billiard onto this kernel live in simos.seams.
"""
