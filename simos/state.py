"""The current kernel (one per run)."""
K = None
