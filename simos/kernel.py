"""The simulated kernel: actors + baton, seeded scheduler, clock, semaphores,
file descriptors, pipes, sockets, poll, processes, signals.

Exactly one actor runs at any moment.  Every kernel call is a pre-emption
point (the actor yields *before* the call takes effect) and is atomic.
All nondeterminism comes from Kernel.choose().
"""
import _thread
import errno
import hashlib
import os as _os
import signal as _signal
import sys
import threading as _rt
import traceback

_real_get_ident = _thread.get_ident
_rt.stack_size(512 * 1024)


class SimDead(BaseException):
    """Raised inside actors of a dead simulated process (from every kernel call)."""


class SimAbort(BaseException):
    """Raised inside every actor when the run is being torn down."""


class HostExit(Exception):
    """os._exit() / default-fatal signal reached simulated process 0 (the host)."""


SIG_DFL = _signal.SIG_DFL
SIG_IGN = _signal.SIG_IGN
SIGKILL = int(_signal.SIGKILL)
SIGSTOP = int(_signal.SIGSTOP)
SIGCHLD = int(_signal.SIGCHLD)
_IGNORED_BY_DEFAULT = {SIGCHLD, int(_signal.SIGURG), int(_signal.SIGWINCH), int(_signal.SIGCONT)}

PIPE_BUF = 4096


class Actor:
    __slots__ = ('k', 'proc', 'name', 'fn', 'thread_obj', 'state', 'go', 'wake',
                 'deadline', 'label', 'exc', 'idx', 'thread', 'last_run', 'prio',
                 'kind', 'stall_until', 'result', 'in_handler', 'tid', 'nosig', 'intr')

    def __init__(self, k, proc, name, fn, thread_obj, kind):
        self.k = k
        self.proc = proc
        self.name = name
        self.fn = fn
        self.thread_obj = thread_obj
        self.state = 'ready'        # ready | running | blocked | done
        self.go = _thread.allocate_lock()
        self.go.acquire()
        self.wake = None
        self.deadline = None
        self.label = 'start'
        self.exc = None
        self.idx = 0
        self.thread = None
        self.last_run = -1
        self.prio = 0.0
        self.kind = kind
        self.stall_until = None
        self.result = None
        self.in_handler = 0
        self.tid = 0
        self.nosig = 0
        self.intr = True

    def __repr__(self):
        return '<Actor %s %s %s>' % (self.name, self.state, self.label)


class KSem:
    __slots__ = ('id', 'kind', 'value', 'maxvalue')

    def __init__(self, id, kind, value, maxvalue):
        self.id, self.kind, self.value, self.maxvalue = id, kind, value, maxvalue


class Pipe:
    __slots__ = ('id', 'buf', 'cap', 'readers', 'writers', 'nwritten', 'nread', 'tap')

    def __init__(self, id, cap):
        self.id = id
        self.buf = bytearray()
        self.cap = cap
        self.readers = 0
        self.writers = 0
        self.nwritten = 0
        self.nread = 0
        self.tap = None          # optional callable(pipe, proc, data) on every write


class OpenFile:
    """An open file description (shared by inherited / duplicated descriptors)."""
    __slots__ = ('kind', 'rpipe', 'wpipe', 'refs', 'nonblock', 'listener', 'id')

    def __init__(self, kind, rpipe=None, wpipe=None, listener=None):
        self.kind = kind            # 'pr' | 'pw' | 'sock' | 'listen'
        self.rpipe = rpipe
        self.wpipe = wpipe
        self.refs = 0
        self.nonblock = False
        self.listener = listener
        self.id = 0


class ListenSock:
    __slots__ = ('addr', 'backlog', 'closed')

    def __init__(self, addr):
        self.addr = addr
        self.backlog = []
        self.closed = False


class SimProc:
    def __init__(self, k, pid, parent, name):
        self.k = k
        self.pid = pid
        self.parent = parent
        self.name = name
        self.fds = {}
        self.sig = {}               # signum -> handler
        self.pending = []
        self.status = None          # None | ('exit', code) | ('signal', n)
        self.reaped = False
        self.actors = []
        self.main = None
        self.pgid = parent.pgid if parent else pid
        self.rss = 1000
        self.globals = {}           # per-process module globals (swapped at context switch)
        self.exit_slot = None       # per-process sys.exit replacement
        self.children = []
        self.death_step = None
        self.death_time = None
        self.info = {}              # scratch for harnesses (phase, executed jobs, ...)
        self.at_exit = []

    @property
    def dead(self):
        return self.status is not None

    def __hash__(self):
        return self.pid

    def __repr__(self):
        return '<SimProc %s pid=%d %s>' % (self.name, self.pid, self.status)


class Deadlock(Exception):
    pass


class Kernel:
    def __init__(self, rng, policy='random', choices=None, cfg=None):
        cfg = dict(cfg or {})
        self.rng = rng
        self.policy = policy
        self.replay = list(choices) if choices is not None else None
        self.replay_pos = 0
        self.choices = []
        self.cfg = cfg
        self.now = cfg.get('t0', 1000.0)
        self.steps = 0
        self.max_steps = cfg.get('max_steps', 60000)
        self.horizon = self.now + cfg.get('horizon', 600.0)
        self.pipe_cap = cfg.get('pipe_cap', 65536)
        self.short_io = cfg.get('short_io', False)
        self.eintr = cfg.get('eintr', 0.0)       # probability of EINTR per blocking-capable I/O call
        self.sleep_jitter = cfg.get('sleep_jitter', 0.0)
        self.sticky = cfg.get('sticky', 0.7)
        self.actors = []
        self.procs = {}
        self.sems = {}
        self.pipes = []
        self.listeners = {}
        self._next_pid = 5000
        self._next_fd = 10
        self._next_sem = 1
        self._next_of = 1
        self._next_tid = 1
        self.back = _thread.allocate_lock()
        self.back.acquire()
        self.current = None
        self.cur_proc = None
        self.by_ident = {}
        self.log = []
        self.log_cap = cfg.get('log_cap', 200000)
        self._h = hashlib.sha256()
        self._fp = hashlib.sha256()
        self.n_decisions = 0
        self.n_io = 0
        self.urandom_log = []
        self.pipe_hist = cfg.get('pipe_hist', False)
        self.pipe_hist_data = {}
        self.n_switches = 0
        self.aborting = False
        self.end_reason = None
        self.fault_hook = None       # callable(kernel) run before each scheduling decision
        self.step_hook = None        # callable(kernel) run after each step (invariants)
        self.state_fn = None         # callable() -> hashable abstract state
        self.states = set()
        self.probes = {}
        self.faults = {}
        self.per_proc_globals = []   # [(module, attr, factory(proc))]
        self.host_exit = None
        self.violations = []         # appended by invariants: (clause, sig, detail)
        self.deadlock_info = None
        self.trace_files = None
        self.preempt_at = None
        self.trace_funcs = None
        self.trace_prob = 0.0
        self.trace_stall_prob = 0.5
        self._pct_points = []
        import random as _random
        self.urng = _random.Random(cfg.get('useed', 0))
        self.root = self._new_proc(None, 'P0')
        if policy == 'pct':
            d = cfg.get('pct_depth', 2)
            est = cfg.get('pct_steps', 3000)
            self._pct_points = sorted(rng.randrange(1, est) for _ in range(d))

    # ------------------------------------------------------------------ utilities
    def probe(self, name, n=1):
        self.probes[name] = self.probes.get(name, 0) + n

    def fault_fired(self, name, n=1):
        self.faults[name] = self.faults.get(name, 0) + n

    def record(self, *entry):
        """Append to the event log (never draws, never reads a real clock)."""
        a = self.current
        e = (self.steps, a.name if a else '-',) + entry
        if len(self.log) < self.log_cap:
            self.log.append(e)
        self._h.update(repr(e).encode())

    def digest(self):
        return self._h.hexdigest()[:16]

    def fingerprint(self):
        return self._fp.hexdigest()[:16]

    def choose(self, n, tag='x'):
        """The only source of nondeterminism. Returns an int in range(n)."""
        if n <= 1:
            return 0
        if self.replay is not None:
            if self.replay_pos < len(self.replay):
                c = self.replay[self.replay_pos]
                self.replay_pos += 1
                if not (0 <= c < n):
                    c = 0
            else:
                c = 0
        else:
            c = self.rng.randrange(n)
        self.choices.append(c)
        return c

    def chance(self, p, tag='p'):
        """Bernoulli draw recorded as a binary choice."""
        if p <= 0:
            return False
        if self.replay is not None:
            return bool(self.choose(2, tag))
        c = 1 if self.rng.random() < p else 0
        self.choices.append(c)
        return bool(c)

    # ------------------------------------------------------------------ processes / actors
    def _new_proc(self, parent, name):
        pid = self._next_pid
        self._next_pid += 1
        p = SimProc(self, pid, parent, name)
        self.procs[pid] = p
        if parent is not None:
            parent.children.append(p)
        for mod, attr, factory in self.per_proc_globals:
            p.globals[(mod, attr)] = factory(p)
        return p

    def add_per_proc_global(self, mod, attr, factory):
        """Register a module global that must be private to each simulated process."""
        self.per_proc_globals.append((mod, attr, factory))
        key = (mod, attr)
        for p in self.procs.values():
            if key not in p.globals:
                if p is self.root:
                    p.globals[key] = getattr(mod, attr)
                else:
                    p.globals[key] = factory(p)

    def _swap_globals(self, old, new):
        if old is not None:
            for mod, attr, _f in self.per_proc_globals:
                old.globals[(mod, attr)] = getattr(mod, attr)
        for mod, attr, _f in self.per_proc_globals:
            setattr(mod, attr, new.globals[(mod, attr)])

    def spawn_actor(self, proc, fn, name, thread_obj=None, kind=None, main=False):
        a = Actor(self, proc, name, fn, thread_obj, kind or name.split('.')[-1])
        a.idx = len(self.actors)
        a.tid = self._next_tid
        self._next_tid += 1
        if self.policy == 'pct':
            a.prio = 1.0 + self.rng.random()
        self.actors.append(a)
        proc.actors.append(a)
        if main:
            proc.main = a
        t = _rt.Thread(target=self._actor_main, args=(a,), daemon=True)
        a.thread = t
        t.start()
        return a

    def _actor_main(self, a):
        self.by_ident[_real_get_ident()] = a
        a.go.acquire()
        a.state = 'running'
        try:
            if self.aborting:
                raise SimAbort()
            if a.proc.dead:
                raise SimDead()
            if self.trace_files is not None:
                sys.settrace(self._tracer)
            a.result = a.fn()
        except SimDead:
            pass
        except SimAbort:
            pass
        except BaseException as exc:          # noqa
            a.exc = exc
            self.record('actor-crash', type(exc).__name__, str(exc)[:200])
            if self.cfg.get('print_crash', False):
                traceback.print_exc()
        finally:
            sys.settrace(None)
            a.state = 'done'
            a.label = 'done'
            self.by_ident.pop(_real_get_ident(), None)
            self.back.release()

    def cur(self):
        return self.by_ident.get(_real_get_ident())

    # ------------------------------------------------------------------ baton
    def _to_sched(self, a):
        self.back.release()
        a.go.acquire()
        if self.aborting:
            raise SimAbort()

    def enter(self, label, deliver=True):
        """Start of a kernel call: dead check, pre-emption point, signal delivery.

        deliver=False for calls that cannot block (sem_post, close, ...): the C call is not
        interrupted; pending handlers run after it (the caller invokes after_nonblocking())."""
        a = self.by_ident.get(_real_get_ident())
        if a is None:
            raise RuntimeError('kernel call %r from a non-actor thread' % (label,))
        if self.aborting:
            raise SimAbort()
        if a.proc.dead:
            raise SimDead()
        if a.in_handler > 50:
            raise RuntimeError('signal handler recursion')
        a.label = label
        a.state = 'ready'
        self._to_sched(a)
        a.state = 'running'
        if a.proc.dead:
            raise SimDead()
        if deliver and a.proc.pending and a is a.proc.main and not a.nosig:
            self._deliver(a)
        return a

    def after_nonblocking(self, a):
        """Run pending handlers once a non-blocking kernel call has taken effect."""
        if a.proc.pending and a is a.proc.main and not a.nosig and not a.proc.dead:
            self._deliver(a)

    def quiet_actor(self):
        """Calling actor for a kernel call that is not a pre-emption point.  None for a non-actor
        thread (set-up code); actors of dead processes / torn-down runs unwind."""
        a = self.by_ident.get(_real_get_ident())
        if a is None:
            return None
        if self.aborting:
            raise SimAbort()
        if a.proc.dead:
            raise SimDead()
        return a

    def enter_quiet(self):
        """Kernel entry without pre-emption (used by __del__-driven closes and bookkeeping)."""
        a = self.by_ident.get(_real_get_ident())
        if a is None or self.aborting or a.proc.dead:
            return None
        return a

    def wait_until(self, a, ready, deadline, label, interruptible=True):
        """Block the calling actor until ready() or the deadline. True=ready, False=timeout."""
        while True:
            if ready():
                return True
            if deadline is not None and self.now >= deadline:
                return False
            a.state = 'blocked'
            a.intr = interruptible
            a.wake = ready
            a.deadline = deadline
            a.label = label
            self._to_sched(a)
            a.state = 'running'
            a.wake = None
            a.deadline = None
            if a.proc.dead:
                raise SimDead()
            if interruptible and a.proc.pending and a is a.proc.main and not a.nosig:
                self._deliver(a)

    def yield_(self, label='yield'):
        self.enter(label)

    # ------------------------------------------------------------------ scheduler
    def _runnable(self):
        out = []
        now = self.now
        for a in self.actors:
            st = a.state
            if st == 'done' or st == 'running':
                continue
            if a.stall_until is not None:
                if now < a.stall_until:
                    continue
                a.stall_until = None
            if st == 'ready':
                out.append(a)
            elif st == 'blocked':
                if a.proc.dead or (a.wake is not None and a.wake()):
                    out.append(a)
                elif a.deadline is not None and a.deadline <= now:
                    out.append(a)
                elif a.proc.pending and a.intr and a is a.proc.main and not a.nosig:
                    out.append(a)
        return out

    def _deliverable(self, proc):
        return bool(proc.pending)

    def _next_time(self):
        t = None
        for a in self.actors:
            if a.state == 'done':
                continue
            c = None
            if a.state == 'blocked' and a.deadline is not None:
                c = a.deadline
            if a.stall_until is not None:
                c = a.stall_until if c is None else max(c, a.stall_until)
            if c is not None and (t is None or c < t):
                t = c
        for tt, _fn in self.timers:
            if t is None or tt < t:
                t = tt
        return t

    timers = ()

    def add_timer(self, t, fn):
        """Scheduler-side timer (used by fault plans keyed on simulated time)."""
        self.timers = sorted(list(self.timers) + [(t, fn)], key=lambda x: x[0])

    def _fire_timers(self):
        fired = False
        while self.timers and self.timers[0][0] <= self.now:
            _t, fn = self.timers[0]
            self.timers = self.timers[1:]
            fn(self)
            fired = True
        return fired

    def _pick(self, runnable):
        cur = self.current
        if cur in runnable and runnable[0] is not cur:
            runnable.remove(cur)
            runnable.insert(0, cur)
        n = len(runnable)
        if n == 1:
            return runnable[0]
        self.n_decisions += 1
        if self.replay is not None:
            i = self.choose(n, 'sched')
        else:
            pol = self.policy
            if pol == 'random':
                i = self.rng.randrange(n)
            elif pol == 'sticky':
                if runnable[0] is cur and self.rng.random() < self.sticky:
                    i = 0
                else:
                    i = self.rng.randrange(n)
            elif pol == 'fifo':
                if runnable[0] is cur:
                    i = 0
                else:
                    i = min(range(n), key=lambda j: (runnable[j].last_run, runnable[j].idx))
            elif pol == 'pct':
                while self._pct_points and self._pct_points[0] <= self.steps:
                    self._pct_points.pop(0)
                    top = max(runnable, key=lambda x: x.prio)
                    top.prio = 1.0 / (2 + self.steps)
                i = max(range(n), key=lambda j: runnable[j].prio)
            else:
                raise ValueError(pol)
            self.choices.append(i)
        a = runnable[i]
        self._fp.update(('%s:%s:%d;' % (a.kind, a.label, i)).encode())
        return a

    def _switch_to(self, a):
        if a.proc is not self.cur_proc:
            if self.per_proc_globals:
                self._swap_globals(self.cur_proc, a.proc)
            self.cur_proc = a.proc
        if a is not self.current:
            self.n_switches += 1
        self.current = a
        a.last_run = self.steps
        a.go.release()
        self.back.acquire()

    def _reap_dead_actors(self):
        """Let actors of dead processes unwind (instantaneous, not a decision)."""
        again = True
        while again:
            again = False
            for a in self.actors:
                if a.state != 'done' and a.proc.dead:
                    self._switch_to(a)
                    again = True

    def run(self):
        """Scheduler loop; returns end reason: quiescent | deadlock | horizon | steps | host-exit."""
        while True:
            if self.fault_hook is not None:
                self.fault_hook(self)
            self._reap_dead_actors()
            if self.host_exit is not None:
                self.end_reason = 'host-exit'
                break
            if self._fire_timers():
                continue
            runnable = self._runnable()
            if not runnable:
                t = self._next_time()
                if t is None:
                    live = [a for a in self.actors if a.state != 'done']
                    self.end_reason = 'deadlock' if live else 'quiescent'
                    break
                if t > self.horizon:
                    self.end_reason = 'horizon'
                    break
                if t <= self.now:          # pragma: no cover
                    raise RuntimeError('scheduler stuck at t=%r' % self.now)
                self.now = t
                continue
            if self.steps >= self.max_steps:
                self.end_reason = 'steps'
                break
            a = self._pick(runnable)
            self._switch_to(a)
            self.steps += 1
            if self.step_hook is not None:
                self.step_hook(self)
            if self.state_fn is not None:
                self.states.add(self.state_fn())
        return self.end_reason

    def blocked_report(self):
        frames = sys._current_frames()
        out = []
        for a in self.actors:
            if a.state == 'done':
                continue
            fr = frames.get(a.thread.ident)
            stack = []
            if fr is not None:
                for fs in traceback.extract_stack(fr)[-14:]:
                    if '/simos/' in fs.filename or 'threading.py' in fs.filename:
                        continue
                    stack.append('%s:%d %s' % (_os.path.basename(fs.filename), fs.lineno, fs.name))
            out.append({'actor': a.name, 'state': a.state, 'label': a.label, 'stack': stack[-8:]})
        return out

    def shutdown(self):
        """Unwind every remaining actor (needed when several runs share one OS process)."""
        self.aborting = True
        for a in self.actors:
            if a.state != 'done':
                a.go.release()
                self.back.acquire()
        for a in self.actors:
            a.thread.join(1.0)
        # restore root globals
        if self.per_proc_globals and self.cur_proc is not self.root:
            self._swap_globals(self.cur_proc, self.root)
            self.cur_proc = self.root

    # ------------------------------------------------------------------ line-level pre-emption
    def enable_line_preemption(self, files, points):
        """points: sorted list of global traced-line counts at which to force a yield."""
        self.trace_files = tuple(files)
        self.preempt_at = list(points)
        self._lines = 0

    def enable_func_preemption(self, files, funcs, prob, stall_prob=0.5, stall_dur=0.0005):
        """Every line of the named functions (of the named files) is a pre-emption point with probability
        `prob` (one scheduler decision each): a thread can lose the processor between any two lines, and these
        are the functions whose windows between system calls matter."""
        self.trace_files = tuple(files)
        self.preempt_at = self.preempt_at or []
        self._lines = getattr(self, '_lines', 0)
        self.trace_funcs = frozenset(funcs)
        self.trace_prob = prob
        self.trace_stall_prob = stall_prob
        self.trace_stall_dur = stall_dur

    def _tracer(self, frame, event, arg):
        if frame.f_code.co_filename.endswith(self.trace_files):
            if self.trace_funcs is not None:
                return self._func_tracer if frame.f_code.co_name in self.trace_funcs else None
            return self._line_tracer
        return None

    def _func_tracer(self, frame, event, arg):
        if event == 'line':
            a = self.by_ident.get(_real_get_ident())
            if a is not None and not a.proc.dead and not self.aborting and not a.nosig and a.in_handler == 0:
                if self.chance(self.trace_prob, 'line?'):
                    self.probe('line_preempt')
                    if self.chance(self.trace_stall_prob, 'line-stall?'):
                        # descheduled for a moment: everybody else runs until they block (the clock moves on
                        # only when nobody else is runnable)
                        self.stall(a, getattr(self, 'trace_stall_dur', 0.0005))
                        self.record('line-stall', frame.f_code.co_name, frame.f_lineno - frame.f_code.co_firstlineno)
                    self.enter('line:%s:%d' % (frame.f_code.co_name, frame.f_lineno - frame.f_code.co_firstlineno))
        return self._func_tracer

    def _line_tracer(self, frame, event, arg):
        if event == 'line':
            self._lines += 1
            pa = self.preempt_at
            if pa and self._lines >= pa[0]:
                pa.pop(0)
                a = self.by_ident.get(_real_get_ident())
                if a is not None and not a.proc.dead and not self.aborting and not a.nosig:
                    self.probe('line_preempt')
                    self.enter('line:%s:%d' % (_os.path.basename(frame.f_code.co_filename), frame.f_lineno))
        return self._line_tracer

    # ------------------------------------------------------------------ clock
    def monotonic(self):
        return self.now

    def sleep(self, d):
        a = self.enter('sleep')
        if self.cfg.get('log_sleeps'):
            self.record('sleep', d, self.now)
        if d is None or d <= 0:
            return
        extra = 0.0
        if self.sleep_jitter:
            extra = self.sleep_jitter * self.choose(3, 'jit') / 2.0
        deadline = self.now + d + extra
        self.wait_until(a, _never, deadline, 'sleep')

    def stall(self, actor, dt):
        actor.stall_until = self.now + dt
        self.fault_fired('stall')

    # ------------------------------------------------------------------ semaphores (SemLock)
    def sem_create(self, kind, value, maxvalue):
        s = KSem(self._next_sem, kind, value, maxvalue)
        self._next_sem += 1
        self.sems[s.id] = s
        return s

    # ------------------------------------------------------------------ files
    def _alloc_fd(self, proc, of):
        fd = self._next_fd
        self._next_fd += 1
        proc.fds[fd] = of
        of.refs += 1
        return fd

    def _new_pipe(self, cap=None):
        p = Pipe(len(self.pipes), cap or self.pipe_cap)
        self.pipes.append(p)
        return p

    def _mk_of(self, kind, **kw):
        of = OpenFile(kind, **kw)
        of.id = self._next_of
        self._next_of += 1
        if of.rpipe is not None:
            of.rpipe.readers += 1
        if of.wpipe is not None:
            of.wpipe.writers += 1
        return of

    def pipe(self, quiet=False):
        a = self.quiet_actor() if quiet else self.enter('pipe')
        proc = a.proc
        p = self._new_pipe()
        r = self._alloc_fd(proc, self._mk_of('pr', rpipe=p))
        w = self._alloc_fd(proc, self._mk_of('pw', wpipe=p))
        self.record('pipe', r, w)
        return r, w

    def socketpair(self):
        a = self.enter('socketpair')
        p1, p2 = self._new_pipe(), self._new_pipe()
        f1 = self._alloc_fd(a.proc, self._mk_of('sock', rpipe=p1, wpipe=p2))
        f2 = self._alloc_fd(a.proc, self._mk_of('sock', rpipe=p2, wpipe=p1))
        self.record('socketpair', f1, f2)
        return f1, f2

    def _of(self, proc, fd):
        try:
            return proc.fds[fd]
        except (KeyError, TypeError):
            raise OSError(errno.EBADF, 'Bad file descriptor (sim fd %r)' % (fd,))

    def _drop_of(self, of):
        of.refs -= 1
        if of.refs == 0:
            if of.rpipe is not None:
                of.rpipe.readers -= 1
            if of.wpipe is not None:
                of.wpipe.writers -= 1
            if of.listener is not None:
                of.listener.closed = True
                self.listeners.pop(of.listener.addr, None)

    def close(self, fd, quiet=False):
        if quiet:
            a = self.enter_quiet()
            if a is None:
                return
        else:
            a = self.enter('close', deliver=False)
        of = a.proc.fds.pop(fd, None)
        if of is None:
            if quiet:
                return
            raise OSError(errno.EBADF, 'Bad file descriptor (sim fd %r)' % (fd,))
        self._drop_of(of)
        self.record('close', fd)
        if not quiet:
            self.after_nonblocking(a)

    def set_nonblock(self, fd, flag):
        a = self.quiet_actor()
        self._of(a.proc, fd).nonblock = bool(flag)

    def dup_into(self, src_proc, fd, dst_proc):
        """Inherit a descriptor (same number) into another process."""
        of = self._of(src_proc, fd)
        if fd in dst_proc.fds:
            return
        dst_proc.fds[fd] = of
        of.refs += 1

    def _maybe_eintr(self, what):
        only = self.cfg.get('eintr_only')
        if only is not None and what not in only:
            return      # EINTR is injected only into calls whose callers have a retry loop of their own
        if self.eintr and self.chance(self.eintr, 'eintr'):
            self.fault_fired('eintr')
            raise InterruptedError(errno.EINTR, 'Interrupted system call (injected, %s)' % what)

    def read(self, fd, n):
        a = self.enter('read')
        self.n_io += 1
        of = self._of(a.proc, fd)
        p = of.rpipe
        if p is None:
            raise OSError(errno.EBADF, 'not readable')
        self._maybe_eintr('read')
        if not p.buf and p.writers > 0:
            if of.nonblock:
                raise BlockingIOError(errno.EAGAIN, 'Resource temporarily unavailable')
            self.wait_until(a, lambda: bool(p.buf) or p.writers == 0, None, 'read:%d' % fd)
            if of.refs and fd not in a.proc.fds:
                raise OSError(errno.EBADF, 'closed during read')
        if not p.buf:
            self.record('read', fd, 0)
            return b''
        m = min(n, len(p.buf))
        if self.short_io and m > 1 and self.chance(0.4, 'short-r?'):
            m = 1 + self.choose(m - 1, 'short-r')
            self.fault_fired('short_read')
        data = bytes(p.buf[:m])
        del p.buf[:m]
        p.nread += m
        self.record('read', fd, m)
        return data

    def write(self, fd, data):
        a = self.enter('write')
        self.n_io += 1
        of = self._of(a.proc, fd)
        p = of.wpipe
        if p is None:
            raise OSError(errno.EBADF, 'not writable')
        data = bytes(data)
        n = len(data)
        self._maybe_eintr('write')
        if n == 0:
            return 0            # (Linux: a zero-length write on a pipe succeeds even without readers)
        if p.readers == 0:
            self.record('write', fd, 'EPIPE')
            raise BrokenPipeError(errno.EPIPE, 'Broken pipe')
        atomic = n <= min(PIPE_BUF, p.cap)
        need = n if atomic else 1

        def ready():
            return p.readers == 0 or (p.cap - len(p.buf)) >= need
        if not ready():
            if of.nonblock:
                raise BlockingIOError(errno.EAGAIN, 'Resource temporarily unavailable')
            self.probe('write_blocked_full_pipe')
            self.wait_until(a, ready, None, 'write:%d' % fd)
        if p.readers == 0:
            self.record('write', fd, 'EPIPE')
            raise BrokenPipeError(errno.EPIPE, 'Broken pipe')
        space = p.cap - len(p.buf)
        m = n if atomic else min(space, n)
        if self.short_io and not atomic and m > 1 and self.chance(0.4, 'short-w?'):
            m = 1 + self.choose(m - 1, 'short-w')
            self.fault_fired('short_write')
        elif self.short_io and atomic and of.kind == 'sock' and m > 1 and self.chance(0.3, 'short-ws?'):
            # stream sockets give no atomicity guarantee
            m = 1 + self.choose(m - 1, 'short-w')
            self.fault_fired('short_write')
        chunk = data[:m]
        p.buf += chunk
        p.nwritten += m
        if p.tap is not None:
            p.tap(p, a.proc, chunk)
        if self.pipe_hist:
            self.pipe_hist_data.setdefault(p.id, bytearray()).extend(chunk)
        self.record('write', fd, m)
        return m

    def fd_readable_now(self, proc, fd):
        of = proc.fds.get(fd)
        if of is None:
            return True          # POLLNVAL - reported by poll itself
        if of.kind == 'listen':
            return bool(of.listener.backlog)
        p = of.rpipe
        if p is None:
            return False
        return bool(p.buf) or p.writers == 0

    def poll(self, fds, timeout):
        """timeout in seconds (None = forever). Returns list of ready fds (in given order)."""
        a = self.enter('poll')
        proc = a.proc
        for fd in fds:
            if fd not in proc.fds:
                raise ValueError('invalid file descriptor %r' % (fd,))
        if self.cfg.get('eintr_poll'):
            self._maybe_eintr('poll')

        def ready():
            for fd in fds:
                if self.fd_readable_now(proc, fd):
                    return True
            return False
        deadline = None if timeout is None else self.now + max(0.0, timeout)
        if timeout is not None and timeout <= 0:
            ok = ready()
        else:
            ok = self.wait_until(a, ready, deadline, 'poll')
        res = [fd for fd in fds if self.fd_readable_now(proc, fd)] if ok else []
        self.record('poll', tuple(fds), tuple(res))
        return res

    # ------------------------------------------------------------------ listening sockets
    def listen(self, addr):
        a = self.enter('listen')
        if addr in self.listeners:
            raise OSError(errno.EADDRINUSE, 'Address already in use')
        ls = ListenSock(addr)
        self.listeners[addr] = ls
        fd = self._alloc_fd(a.proc, self._mk_of('listen', listener=ls))
        self.record('listen', fd)
        return fd

    def accept(self, fd):
        a = self.enter('accept')
        of = self._of(a.proc, fd)
        ls = of.listener
        self._maybe_eintr('accept')
        self.wait_until(a, lambda: bool(ls.backlog) or ls.closed, None, 'accept')
        if not ls.backlog:
            raise OSError(errno.EBADF, 'listener closed')
        sof = ls.backlog.pop(0)
        nfd = self._alloc_fd(a.proc, sof)
        sof.refs -= 1           # the backlog held one reference
        self.record('accept', nfd)
        return nfd

    def connect(self, addr):
        a = self.enter('connect')
        ls = self.listeners.get(addr)
        if ls is None or ls.closed:
            raise ConnectionRefusedError(errno.ECONNREFUSED, 'Connection refused')
        p1, p2 = self._new_pipe(), self._new_pipe()
        mine = self._mk_of('sock', rpipe=p1, wpipe=p2)
        theirs = self._mk_of('sock', rpipe=p2, wpipe=p1)
        theirs.refs += 1        # held by the backlog until accepted
        ls.backlog.append(theirs)
        fd = self._alloc_fd(a.proc, mine)
        self.record('connect', fd)
        return fd

    # ------------------------------------------------------------------ processes & signals
    def getpid(self):
        a = self.by_ident.get(_real_get_ident())
        if a is None:
            return self.root.pid
        return a.proc.pid

    def cur_proc_obj(self):
        a = self.by_ident.get(_real_get_ident())
        return a.proc if a is not None else self.root

    def create_process(self, name, main_fn, inherit_fds=(), parent=None, quiet=True):
        a = self.quiet_actor()
        parent = parent or (a.proc if a is not None else self.root)
        child = self._new_proc(parent, name)
        child.name = '%s%d' % (name, child.pid)
        for fd in inherit_fds:
            self.dup_into(parent, fd, child)
        # a child starts with the signal dispositions of a fresh interpreter
        self.spawn_actor(child, main_fn, '%s.main' % child.name, kind=name + '.main', main=True)
        self.record('fork', child.pid)
        return child

    def spawn_thread(self, fn, name, thread_obj=None, proc=None):
        a = self.quiet_actor()
        proc = proc or (a.proc if a is not None else self.root)
        full = '%s.%s' % (proc.name, name)
        n = sum(1 for x in proc.actors if x.name == full or x.name.startswith(full + '#'))
        if n:
            full = '%s#%d' % (full, n)
        act = self.spawn_actor(proc, fn, full, thread_obj=thread_obj, kind=name)
        self.record('thread-start', full)
        return act

    def join_actor(self, target, timeout=None):
        a = self.enter('join')
        deadline = None if timeout is None else self.now + max(0.0, timeout)
        return self.wait_until(a, lambda: target.state == 'done', deadline, 'join:%s' % target.name)

    def _die(self, proc, status, by=None):
        """Make a process dead now (atomic). status: ('exit', n) | ('signal', n)."""
        if proc.dead:
            return
        proc.status = status
        proc.death_step = self.steps
        proc.death_time = self.now
        for fn in proc.at_exit:
            fn(proc)
        for fd in list(proc.fds):
            self._drop_of(proc.fds.pop(fd))
        self.record('death', proc.pid, status)
        if proc is self.root:
            self.host_exit = status

    def exit_now(self, code):
        """os._exit(code) of the calling process."""
        a = self.by_ident.get(_real_get_ident())
        if a is None:
            raise RuntimeError('os._exit from non-actor')
        if self.aborting:
            raise SimAbort()
        if a.proc.dead:
            raise SimDead()
        try:
            code = int(code) & 0xff
        except Exception:
            code = 1
        self._die(a.proc, ('exit', code))
        raise SimDead()

    def signal_set(self, signum, handler):
        a = self.quiet_actor()
        proc = a.proc if a is not None else self.root
        signum = int(signum)
        if signum in (SIGKILL, SIGSTOP):
            raise OSError(errno.EINVAL, 'Invalid argument')
        old = proc.sig.get(signum, SIG_DFL)
        proc.sig[signum] = handler
        return old

    def signal_get(self, signum):
        a = self.quiet_actor()
        proc = a.proc if a is not None else self.root
        return proc.sig.get(int(signum), SIG_DFL)

    def post_signal(self, proc, signum, why=''):
        """Scheduler- or actor-side: make signum pending for proc (or kill at once)."""
        signum = int(signum)
        if proc.dead:
            return
        if signum == 0:
            return
        if signum == SIGKILL:
            self.record('sigkill', proc.pid, why)
            self._die(proc, ('signal', SIGKILL))
            return
        h = proc.sig.get(signum, SIG_DFL)
        if h == SIG_IGN or (h == SIG_DFL and signum in _IGNORED_BY_DEFAULT):
            self.record('sig-ignored', proc.pid, signum)
            return
        if h == SIG_DFL:
            # default action of every other signal we model: terminate
            self.record('sig-default', proc.pid, signum, why)
            self._die(proc, ('signal', signum))
            return
        if signum not in proc.pending:
            proc.pending.append(signum)
        self.record('sig-pending', proc.pid, signum, why)

    def kill(self, pid, signum):
        a = self.enter('kill')
        signum = int(signum)
        target = self.procs.get(pid)
        if target is None or target.reaped:
            raise ProcessLookupError(errno.ESRCH, 'No such process')
        self.record('kill', pid, signum)
        if signum == 0 or target.dead:
            return
        self.post_signal(target, signum, 'kill() by %s' % a.name)
        if target is a.proc:
            if a.proc.dead:
                raise SimDead()
            if a is a.proc.main and a.proc.pending:
                self._deliver(a)

    def killpg(self, pgid, signum):
        a = self.enter('killpg')
        members = [p for p in self.procs.values() if p.pgid == pgid and not p.reaped]
        if not members:
            raise ProcessLookupError(errno.ESRCH, 'No such process')
        self.record('killpg', pgid, int(signum))
        for p in members:
            if not p.dead:
                self.post_signal(p, signum, 'killpg() by %s' % a.name)
        if a.proc.dead:
            raise SimDead()

    def getpgid(self, pid):
        self.quiet_actor()
        target = self.procs.get(pid)
        if target is None or target.reaped:
            raise ProcessLookupError(errno.ESRCH, 'No such process')
        return target.pgid

    def _deliver(self, a):
        """Run pending handlers in the main actor of its process (may raise)."""
        proc = a.proc
        while proc.pending and not proc.dead:
            signum = proc.pending.pop(0)
            h = proc.sig.get(signum, SIG_DFL)
            if h == SIG_IGN:
                continue
            if h == SIG_DFL:
                if signum in _IGNORED_BY_DEFAULT:
                    continue
                self._die(proc, ('signal', signum))
                raise SimDead()
            self.record('sig-deliver', proc.pid, signum, a.label)
            hook = self.cfg.get('_on_sig_deliver')
            if hook is not None:
                hook(proc, signum, a.label)
            a.in_handler += 1
            try:
                h(signum, None)
            finally:
                a.in_handler -= 1
        if proc.dead:
            raise SimDead()

    def waitpid(self, pid, flags):
        a = self.enter('waitpid')
        me = a.proc
        target = self.procs.get(pid)
        if target is None or target.parent is not me or target.reaped:
            raise ChildProcessError(errno.ECHILD, 'No child processes')
        self._maybe_eintr('waitpid')
        if not target.dead:
            if flags & _os.WNOHANG:
                self.record('waitpid', pid, 'running')
                return 0, 0
            self.wait_until(a, lambda: target.dead, None, 'waitpid:%d' % pid)
        if target.reaped:
            raise ChildProcessError(errno.ECHILD, 'No child processes')
        target.reaped = True
        kind, n = target.status
        sts = (n & 0xff) << 8 if kind == 'exit' else (n & 0x7f)
        self.record('reaped', pid, target.status)
        return pid, sts

    def urandom(self, n):
        self.quiet_actor()
        r = self.urng
        v = bytes(r.getrandbits(8) for _ in range(n))
        self.urandom_log.append(v)
        return v


def _never():
    return False
