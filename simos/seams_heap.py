"""Seams for billiard.heap / billiard.sharedctypes (scenarios S-HEAP and S-SHM).

install_heap() plugs billiard.heap onto the simulated kernel:

* heap.os        -> seams.os_shim        (os.getpid() = simulated pid)
* heap.threading -> seams.threading_shim (Heap._lock = simos.objects.SimLock)
* heap.Arena     -> FakeArena            (no real mmap / temp file / fd; creation is a
                                          pre-emption point and can be told to fail)
* sys.unraisablehook -> recorder         (exceptions swallowed inside Finalize callbacks
                                          become visible to the oracles)

Everything goes through seams._set, so seams.restore() undoes it (the reducer that is
registered for FakeArena with billiard's ForkingPickler is inert and stays).

Per-run state lives in an ArenaWorld attached to the kernel (k.arena_world).
"""
import errno
import sys

from . import state
from . import seams
from .kernel import SimDead, SimAbort

ARENA_FD_BASE = 700000      # fake descriptor numbers of arenas (never in a simulated fd table)


class ArenaWorld:
    """All arenas of one run: backing buffers by fake fd, creation counter, failure plan."""

    def __init__(self, k, fail=None):
        self.k = k
        self.buffers = {}            # fake fd -> bytearray (the "file" every mapping shares)
        self.index = {}              # fake fd -> creation index
        self.calls = 0               # Arena(size) creation attempts (fd == -1)
        self.failed = 0              # ... of which failed by injection
        self.rebuilt = 0             # Arena(size, fd) rebuilds ("child" mappings)
        self.fail = dict((int(n), kind) for n, kind in (fail or {}).items())
        k.arena_world = self

    def is_fake_fd(self, fd):
        return fd in self.buffers


def world():
    k = state.K
    w = getattr(k, 'arena_world', None)
    if w is None:
        w = ArenaWorld(k)
    return w


class FakeArena:
    """Stand-in for billiard.heap.Arena (POSIX flavour): attributes size, fd, buffer.

    Arena(size)      creates a zero-filled buffer (as a fresh file mapping is) and a fake fd;
    Arena(size, fd)  maps the SAME buffer again (what MAP_SHARED of the inherited fd gives).
    Hashable / comparable by identity, like the real class."""

    def __init__(self, size, fd=-1):
        k = state.K
        w = world()
        self.size = size
        if fd == -1:
            if k.cur() is not None:
                k.enter('arena-mmap')          # creating a mapping is a system call
            w.calls += 1
            kind = w.fail.get(w.calls)
            if kind is not None:
                w.failed += 1
                k.fault_fired('arena_' + kind)
                k.record('arena-fail', w.calls, kind, size)
                if kind == 'MemoryError':
                    raise MemoryError('injected: cannot map %d bytes' % size)
                raise OSError(errno.ENOSPC, 'No space left on device (injected)')
            self.fd = ARENA_FD_BASE + len(w.buffers)
            self.idx = len(w.buffers)
            self.buffer = bytearray(size)
            w.buffers[self.fd] = self.buffer
            w.index[self.fd] = self.idx
            k.record('arena', self.idx, size)
        else:
            buf = w.buffers.get(fd)
            if buf is None:
                raise OSError(errno.EBADF, 'Bad file descriptor (fake arena fd %r)' % (fd,))
            if size > len(buf):
                raise ValueError('mmap length is greater than file size')
            self.fd = fd
            self.idx = w.index[fd]
            self.buffer = buf
            w.rebuilt += 1

    def __repr__(self):
        return '<FakeArena #%d size=%d>' % (self.idx, self.size)


def _unraisable(info):
    """sys.unraisablehook: keep what a Finalize callback (heap.free) raised."""
    k = state.K
    exc = info.exc_value
    if k is None or k.aborting or isinstance(exc, (SimDead, SimAbort)):
        return
    lst = getattr(k, 'unraisable', None)
    if lst is None:
        lst = k.unraisable = []
    lst.append((type(exc).__name__, str(exc)[:200]))
    k.record('unraisable', type(exc).__name__)


def install_heap():
    if 'heap' in seams._installed:
        return
    seams._installed.add('heap')
    import billiard.heap as H
    from billiard import reduction
    seams._set(H, 'os', seams.os_shim)
    seams._set(H, 'threading', seams.threading_shim)
    seams._set(H, 'Arena', FakeArena)
    seams._set(sys, 'unraisablehook', _unraisable)
    # the real reduce_arena/rebuild_arena pair carries FakeArena to a "child" (rebuild_arena
    # looks heap.Arena up at call time, i.e. finds FakeArena)
    reduction.register(FakeArena, H.reduce_arena)


def new_heap(size):
    """A fresh billiard.heap.Heap on the simulated lock (call inside a run, after new_kernel)."""
    import billiard.heap as H
    from . import objects as O
    install_heap()
    heap = H.Heap(size)
    # (whatever kind of lock the heap asks the threading module for is what it gets, on the simulated kernel;
    # only a lock that did not come through the seam is replaced)
    if not isinstance(heap._lock, (O.SimLock, O.SimRLock)):
        heap._lock = O.SimLock()
    return heap


def set_wrapper_heap(heap):
    """Point BufferWrapper._heap at `heap`; returns the previous one (caller restores it)."""
    import billiard.heap as H
    old = H.BufferWrapper.__dict__['_heap']
    H.BufferWrapper._heap = heap
    return old


def real_fds(k, fds):
    """Drop fake arena descriptors from an inherit list produced by dump_for_child()."""
    w = getattr(k, 'arena_world', None)
    return [fd for fd in fds if w is None or not w.is_fake_fd(fd)]
