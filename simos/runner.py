"""Batch runner: seeds -> cases -> simulated runs in forked children -> aggregated
evidence, violation confirmation, minimisation, replay files.

A scenario module provides:
    generate(rng, tier, prop) -> case (JSON-able dict)
    execute(case, seed, choices=None) -> result dict (see below)
    shrink(case) -> iterator of smaller cases              (optional)
    COMPONENTS: {'real': [...], 'stub': [...]}, ASSUMPTIONS: [...], RULE: str

Result dict: {violations: [{clause, sig, detail}], digest, fingerprint, steps,
sim_s, end, faults: {}, probes: {}, nstates, state_hashes: [...], nontrivial: bool,
choices: [...], wl_fp: str}
"""
import faulthandler
import fnmatch
import hashlib
import json
import os
import pickle
import random
import select
import signal
import sys
import time
import traceback
from concurrent.futures import ProcessPoolExecutor, as_completed
import multiprocessing as _mp

VERIF = os.path.dirname(os.path.dirname(os.path.abspath(__file__)))
RUN_WALL_LIMIT = 60.0


def H(*parts):
    h = hashlib.sha256(':'.join(str(p) for p in parts).encode()).digest()
    return int.from_bytes(h[:8], 'big')


def load_known():
    p = os.path.join(VERIF, 'known_findings.json')
    try:
        with open(p) as f:
            return json.load(f)
    except FileNotFoundError:
        return []


def match_known(known, prop, sig):
    for e in known:
        if e.get('status') != 'known':
            continue
        if e['property'] != prop and e['property'] != '*':
            continue
        pat = e['signature']
        if pat == sig or fnmatch.fnmatchcase(sig, pat):
            return e
    return None


# ---------------------------------------------------------------------- one run, in a forked child
def _exec_one(scen, case, seed, choices, last=True):
    from simos import state
    try:
        # the case as a replay file holds it: a generated case shares sub-objects (the same list or string
        # object in several places) and pickle writes a shared object once, so the number of bytes a task takes
        # on the simulated pipe - and with it the event log - would differ between the run that found a
        # violation and the replay of its file
        case = json.loads(json.dumps(case))
        res = scen.execute(case, seed, choices)
    except BaseException as exc:       # noqa
        res = {'error': ''.join(traceback.format_exception(type(exc), exc, exc.__traceback__))[-4000:]}
    try:
        if state.K is not None:
            state.K.shutdown()
    except BaseException as exc:       # noqa
        res = {'error': 'shutdown failed: %r' % (exc,), 'fatal': True}
    state.K = None
    # garbage of this run (exception/frame cycles holding Connection objects) must be finalised now,
    # while no kernel is current: collected later it would close descriptors of the next run
    # (not after the last run of this child: it exits anyway, and collecting half-torn-down ctypes/mmap
    # objects of a pool run has been seen to crash the interpreter)
    if not last:
        import gc
        gc.collect()
    return res


def _child_exec(scen, jobs, wfd):
    out = []
    # billiard creates a temporary directory per (simulated) process for heap arenas and listener addresses and
    # removes it from an exit handler; this child leaves through os._exit, so it gets a scratch directory of its own
    # that is removed as a whole
    import shutil
    import tempfile
    scratch = None
    try:
        scratch = tempfile.mkdtemp(prefix='billiard-verif-run-', dir='/var/tmp')
        tempfile.tempdir = scratch
    except OSError:
        scratch = None
    try:
        faulthandler.enable()
        for n, (case, seed, choices) in enumerate(jobs):
            res = _exec_one(scen, case, seed, choices, last=(n == len(jobs) - 1))
            out.append(res)
            if res.get('fatal'):
                break
    except BaseException as exc:       # noqa
        out.append({'error': 'child: %r' % (exc,)})
    try:
        data = pickle.dumps(out)
    except Exception as exc:
        data = pickle.dumps([{'error': 'unpicklable result: %r' % (exc,)}])
    try:
        off = 0
        while off < len(data):
            off += os.write(wfd, data[off:off + 65536])
    finally:
        if scratch:
            shutil.rmtree(scratch, ignore_errors=True)
        os._exit(0)


def run_forked_many(scen, jobs, wall=RUN_WALL_LIMIT):
    """Execute several runs in one forked child; returns list of results (same length as jobs)."""
    r, w = os.pipe()
    sys.stdout.flush()
    sys.stderr.flush()
    pid = os.fork()
    if pid == 0:
        os.close(r)
        _child_exec(scen, jobs, w)
        os._exit(0)
    os.close(w)
    chunks = []
    deadline = time.time() + wall + 0.5 * len(jobs)
    timed_out = False
    while True:
        left = deadline - time.time()
        if left <= 0:
            timed_out = True
            break
        rl, _, _ = select.select([r], [], [], left)
        if not rl:
            timed_out = True
            break
        b = os.read(r, 1 << 20)
        if not b:
            break
        chunks.append(b)
    os.close(r)
    if timed_out:
        try:
            os.kill(pid, signal.SIGKILL)
        except OSError:
            pass
    os.waitpid(pid, 0)
    out = None
    if not timed_out:
        try:
            out = pickle.loads(b''.join(chunks))
        except Exception as exc:
            out = None
    if out is not None and len(out) == len(jobs):
        return out
    if len(jobs) == 1:
        if timed_out:
            return [{'error': 'harness wall-clock limit (%.0fs) exceeded' % wall, 'timeout': True}]
        return [{'error': 'child died without result'}]
    # a batch failed as a whole: isolate by running each job alone
    return [run_forked_many(scen, [j], wall)[0] for j in jobs]


def run_forked(scen, case, seed, choices=None, wall=RUN_WALL_LIMIT):
    """Execute one run in a forked child; returns result dict (or {'error':...})."""
    return run_forked_many(scen, [(case, seed, choices)], wall)[0]


def run_inproc(scen, case, seed, choices=None):
    return scen.execute(json.loads(json.dumps(case)), seed, choices)


def _import_scen(name):
    import importlib
    return importlib.import_module(name)


def _worker_chunk(scen_name, prop, tier, base_seed, indices, src):
    if src and src not in sys.path:
        sys.path.insert(0, src)
    scen = _import_scen(scen_name)
    out = []
    jobs = []
    meta = []
    for i in indices:
        seed = H(base_seed, prop, i)
        rng = random.Random(seed)
        try:
            case = scen.generate(rng, tier, prop)
        except Exception as exc:     # noqa
            out.append((i, seed, None, {'error': 'generate: ' + traceback.format_exc()[-2000:]}))
            continue
        jobs.append((case, seed, None))
        meta.append((i, seed, case))
    per_fork = getattr(scen, 'RUNS_PER_FORK', 1)
    for off in range(0, len(jobs), per_fork):
        ress = run_forked_many(scen, jobs[off:off + per_fork])
        for (i, seed, case), res in zip(meta[off:off + per_fork], ress):
            keep_case = bool(res.get('violations')) or bool(res.get('error')) or (i % 97 == 0)
            out.append((i, seed, case if keep_case else None, res))
    return out


# ---------------------------------------------------------------------- minimisation
def _sigs(res):
    return set(v['sig'] for v in res.get('violations', ()))


def minimise(scen, case, seed, sig, budget_s=60.0, log=None):
    """Delta-debug the case (scenario-provided candidates), then the decision trace."""
    t0 = time.time()
    best_case = case
    best_res = run_forked(scen, case, seed)
    if sig not in _sigs(best_res):
        return case, None, best_res
    improved = True
    tried = 0
    while improved and time.time() - t0 < budget_s and hasattr(scen, 'shrink'):
        improved = False
        for cand in scen.shrink(best_case):
            if time.time() - t0 > budget_s:
                break
            tried += 1
            res = run_forked(scen, cand, seed)
            if sig in _sigs(res):
                best_case, best_res = cand, res
                improved = True
                break
    # schedule minimisation: replay recorded choices, zero them in chunks
    choices = list(best_res.get('choices') or [])
    res = run_forked(scen, best_case, seed, choices)
    if sig not in _sigs(res):
        # the recorded trace must reproduce; if not, fall back to seed-driven replay
        return best_case, None, best_res
    best_res = res
    n = len(choices)
    chunk = max(1, n // 2)
    while chunk >= 1 and time.time() - t0 < budget_s * 1.5:
        i = 0
        changed = False
        while i < n and time.time() - t0 < budget_s * 1.5:
            if any(choices[i:i + chunk]):
                cand = choices[:i] + [0] * min(chunk, n - i) + choices[i + chunk:]
                res = run_forked(scen, best_case, seed, cand)
                if sig in _sigs(res):
                    choices = cand
                    best_res = res
                    changed = True
            i += chunk
        if chunk == 1 and not changed:
            break
        chunk = chunk // 2 if chunk > 1 else (1 if changed else 0)
        if chunk == 0:
            break
    # drop trailing zeros (replay falls back to 0 when exhausted)
    while choices and choices[-1] == 0:
        choices.pop()
    res = run_forked(scen, best_case, seed, choices)
    if sig in _sigs(res):
        best_res = res
    else:
        choices = list(best_res.get('choices') or [])
    return best_case, choices, best_res


def write_replay(prop, scen_name, case, seed, choices, res, sig, outdir=None):
    d = outdir or os.path.join(VERIF, 'replays')
    os.makedirs(d, exist_ok=True)
    safe = ''.join(c if c.isalnum() or c in '-_.' else '_' for c in sig)[:80]
    path = os.path.join(d, '%s-%s-%d.json' % (prop, safe, seed % 10**10))
    viol = [v for v in res.get('violations', ()) if v['sig'] == sig]
    with open(path, 'w') as f:
        json.dump({'property': prop, 'scenario': scen_name, 'seed': seed, 'case': case,
                   'choices': choices, 'signature': sig, 'digest': res.get('digest'),
                   'violation': viol[0] if viol else None,
                   'steps': res.get('steps'), 'end': res.get('end')}, f, indent=1, default=str)
    return path


def replay_file(path, src=None):
    with open(path) as f:
        rep = json.load(f)
    scen = _import_scen(rep['scenario'])
    res = run_forked(scen, rep['case'], rep['seed'], rep.get('choices'))
    return rep, res


def _digest_chunk(scen_name, prop, tier, base_seed, indices, src):
    if os.environ.get('VERIF_DIGEST_VIA_FILE'):
        # the same runs, but each one written out as a replay file and executed from that file, alone in its
        # forked child: what somebody who is handed the file does
        import tempfile
        if src and src not in sys.path:
            sys.path.insert(0, src)
        scen = _import_scen(scen_name)
        out = []
        d = tempfile.mkdtemp(prefix='billiard-verif-dg-', dir='/var/tmp')
        try:
            for i in indices:
                seed = H(base_seed, prop, i)
                case = scen.generate(random.Random(seed), tier, prop)
                path = write_replay(prop, scen_name, case, seed, None, {}, 'selftest-%d' % i, outdir=d)
                _rep, res = replay_file(path)
                os.unlink(path)
                out.append((i, seed, None, res))
        finally:
            import shutil
            shutil.rmtree(d, ignore_errors=True)
    else:
        out = _worker_chunk(scen_name, prop, tier, base_seed, indices, src)
    return [(i, res.get('digest') or ('ERR:' + str(res.get('error'))[-200:]), res.get('steps'),
             sorted(v['sig'] for v in res.get('violations', ()))) for i, seed, case, res in out]


def digests(prop, scen_name, tier, base_seed, n, jobs=16, src=None, reverse=False):
    idx = list(range(n))
    if reverse:
        idx.reverse()
    chunks = [idx[i::jobs] for i in range(jobs)] if not reverse else [idx[i:i + 7] for i in range(0, n, 7)]
    res = {}
    ctx = _mp.get_context('fork')
    with ProcessPoolExecutor(max_workers=jobs, mp_context=ctx) as ex:
        futs = [ex.submit(_digest_chunk, scen_name, prop, tier, base_seed, c, src) for c in chunks if c]
        for f in futs:
            for i, d, st, sg in f.result():
                res[str(i)] = [d, st, sg]
    return res


# ---------------------------------------------------------------------- batch
def run_batch(prop, scen_name, tier, base_seed, n_runs, wall_budget, jobs=16, src=None,
              chunk=8, evidence_extra=None, level_text='exploration', survey=False):
    scen = _import_scen(scen_name)
    known = load_known()
    t0 = time.time()
    agg = {'runs': 0, 'errors': 0, 'timeouts': 0, 'sim_s': 0.0, 'steps': 0, 'faults': {}, 'probes': {},
           'ends': {}, 'violating_runs': 0}
    fps = set()
    nontrivial_fps = set()
    states = set()
    samples = []
    viol_by_sig = {}
    err_samples = []
    ctx = _mp.get_context('fork')
    next_i = 0
    pending = set()
    with ProcessPoolExecutor(max_workers=jobs, mp_context=ctx) as ex:
        def submit():
            nonlocal next_i
            idx = list(range(next_i, min(next_i + chunk, n_runs)))
            if not idx:
                return False
            next_i += len(idx)
            pending.add(ex.submit(_worker_chunk, scen_name, prop, tier, base_seed, idx, src))
            return True
        for _ in range(jobs * 2):
            if not submit():
                break
        while pending:
            done = next(as_completed(pending))
            pending.discard(done)
            try:
                out = done.result()
            except Exception as exc:     # noqa
                agg['errors'] += 1
                err_samples.append('worker crashed: %r' % (exc,))
                out = []
            for i, seed, case, res in out:
                agg['runs'] += 1
                if res.get('error'):
                    agg['errors'] += 1
                    if res.get('timeout'):
                        agg['timeouts'] += 1
                    if len(err_samples) < 5:
                        err_samples.append({'seed': seed, 'i': i, 'error': res['error'], 'case': case})
                    continue
                agg['sim_s'] += res.get('sim_s', 0.0)
                agg['steps'] += res.get('steps', 0)
                agg['ends'][res.get('end')] = agg['ends'].get(res.get('end'), 0) + 1
                for kf, v in res.get('faults', {}).items():
                    agg['faults'][kf] = agg['faults'].get(kf, 0) + v
                for kf, v in res.get('probes', {}).items():
                    agg['probes'][kf] = agg['probes'].get(kf, 0) + v
                fp = (res.get('wl_fp'), res.get('fingerprint'))
                fps.add(fp)
                if res.get('nontrivial'):
                    nontrivial_fps.add(fp)
                for sh in res.get('state_hashes', ()):
                    states.add(sh)
                if case is not None and not res.get('violations') and len(samples) < 4:
                    samples.append({'seed': seed, 'case': case, 'end': res.get('end'),
                                    'steps': res.get('steps'), 'sim_s': res.get('sim_s')})
                if res.get('violations'):
                    agg['violating_runs'] += 1
                    for v in res['violations']:
                        ent = viol_by_sig.setdefault(v['sig'], {'count': 0, 'first': None})
                        ent['count'] += 1
                        if ent['first'] is None or (case is not None and
                                                    res.get('steps', 0) < ent['first'][3].get('steps', 1 << 30)):
                            if case is not None:
                                ent['first'] = (i, seed, case, res, v)
            if time.time() - t0 < wall_budget:
                submit()
            elif next_i < n_runs:
                next_i = n_runs      # stop feeding
    wall = time.time() - t0
    # ----- triage of violations
    if survey:
        for sig, ent in sorted(viol_by_sig.items()):
            v = ent['first'][4] if ent['first'] else {}
            tag = 'known ' if match_known(known, prop, sig) is not None else ('      ' if sig.startswith(prop + '.')
                                                                              else 'other ')
            print('SURVEY %s%-70s runs=%d %s' % (tag, sig, ent['count'],
                                                 str(v.get('detail'))[:160].replace('\n', ' ')))
            sd = os.environ.get('VERIF_SURVEY_DIR')
            if sd and tag == '      ' and ent['first']:
                # raw (unminimised) case for triage
                i, seed, case, res, _v = ent['first']
                write_replay(prop, scen_name, case, seed, None, res, sig, outdir=sd)
        viol_by_sig_all = viol_by_sig
        viol_by_sig = {}
    lines = []
    new_violations = 0
    known_hits = []
    replay_paths = []
    own = sorted(s for s in viol_by_sig if s.startswith(prop + '.'))
    new_sigs = [s for s in own if match_known(known, prop, s) is None and viol_by_sig[s]['first'] is not None]
    total_min = 60.0 if tier == 'quick' else 300.0
    if os.environ.get('VERIF_MINIMISE_S'):
        # (self-tests that only need the verdict: mutants, seeded changes)
        total_min = float(os.environ['VERIF_MINIMISE_S'])
    per_sig = max(6.0, total_min / max(1, len(new_sigs)))
    for sig in own:
        ent = viol_by_sig[sig]
        kf = match_known(known, prop, sig)
        if kf is not None:
            known_hits.append((sig, ent['count'], kf))
            continue
        if ent['first'] is None:
            continue
        i, seed, case, res, v = ent['first']
        if time.time() - t0 - wall > total_min * 1.5:
            per_sig = 0.0        # out of minimisation budget: confirm and report the raw case
        mcase, mchoices, mres = minimise(scen, case, seed, sig, budget_s=per_sig)
        path = write_replay(prop, scen_name, mcase, seed, mchoices, mres, sig)
        # final confirmation from the file, in a fresh process
        rep, rres = replay_file(path)
        if sig in _sigs(rres):
            # the file is the artefact: record the digest of the run it produces and require a second
            # replay (again a fresh process) to reproduce signature and digest exactly
            write_replay(prop, scen_name, mcase, seed, mchoices, rres, sig)
            rep, rres2 = replay_file(path)
            if sig not in _sigs(rres2):
                agg['errors'] += 1
                agg['unconfirmed'] = agg.get('unconfirmed', 0) + 1
                err_samples.append({'replay-not-exact': sig, 'seed': seed, 'replay': path,
                                    'digests': [rres.get('digest'), rres2.get('digest')]})
                continue
            if rres2.get('digest') != rres.get('digest'):
                # the violation reproduces from the file every time, the event logs differ somewhere (a value
                # that depends on the interpreter, e.g. an object address in a message): still a violation, and
                # a determinism defect of the harness to be looked at
                err_samples.append({'replay-digest-differs': sig, 'seed': seed, 'replay': path,
                                    'digests': [rres.get('digest'), rres2.get('digest')]})
            new_violations += 1
            replay_paths.append(path)
            lines.append('VIOLATION property=%s replay=%s' % (prop, path))
            lines.append('  signature=%s runs=%d detail=%s' % (sig, ent['count'], str(v.get('detail'))[:300]))
        else:
            agg['errors'] += 1
            agg['unconfirmed'] = agg.get('unconfirmed', 0) + 1
            err_samples.append({'unreproducible': sig, 'seed': seed, 'replay': path})
    for sig, cnt, kf in known_hits:
        lines.append('KNOWN-FINDING: property=%s %s [sig=%s runs=%d]' % (prop, kf['what'], sig, cnt))
    return {'agg': agg, 'wall': wall, 'fps': len(fps), 'nontrivial': len(nontrivial_fps),
            'states': len(states), 'samples': samples, 'lines': lines, 'new_violations': new_violations,
            'known_hits': [(s, c) for s, c, _ in known_hits], 'err_samples': err_samples,
            'viol_sigs': {s: e['count'] for s, e in viol_by_sig.items()}, 'replays': replay_paths}


def write_evidence(prop, tier, base_seed, scen, batch, extra=None):
    agg = batch['agg']
    wall = batch['wall']
    cov = {
        'evaluations': agg['runs'],
        'distinct_nontrivial': batch['nontrivial'],
        'rule': getattr(scen, 'RULE', ''),
        'samples': batch['samples'] or [{'note': 'no clean sample kept'}],
        'distinct_schedule_workload_fingerprints': batch['fps'],
        'distinct_abstract_states': batch['states'],
        'runs_per_hour': int(agg['runs'] / wall * 3600) if wall > 0 else 0,
        'simulated_seconds': round(agg['sim_s'], 1),
        'scheduling_steps': agg['steps'],
        'faults_fired': agg['faults'],
        'probes_hit': agg['probes'],
        'probes_never_hit': sorted(set(getattr(scen, 'PROBES', ())) - set(k for k, v in agg['probes'].items() if v)),
        'run_end_reasons': agg['ends'],
        'harness_errors': agg['errors'],
        'harness_timeouts': agg['timeouts'],
        # (a sentence, not a count: how many runs carry the signature of a recorded finding depends on the base seed
        # and says nothing about how much this run covered)
        'runs_with_a_violation_signature': '%d of %d runs (own and other properties\' clauses, recorded findings '
                                           'included)' % (agg['violating_runs'], agg['runs']),
        'violation_signatures': batch['viol_sigs'],
        'known_findings_hit': batch['known_hits'],
        'components': getattr(scen, 'COMPONENTS', {}),
        'exhaustive': False,
    }
    if extra:
        cov.update(extra)
    ev = {
        'property_id': prop, 'tier': tier, 'seed': int(base_seed), 'level': 'exploration',
        'coverage': cov,
        'assumptions': list(getattr(scen, 'ASSUMPTIONS', [])),
        'wall_s': round(wall, 2),
        'violations': batch['new_violations'],
    }
    d = os.path.join(VERIF, 'evidence')
    os.makedirs(d, exist_ok=True)
    with open(os.path.join(d, '%s.json' % prop), 'w') as f:
        json.dump(ev, f, indent=1, default=str)
    return ev
