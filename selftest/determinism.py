#!/venv/bin/python
"""Determinism self-test: the same run indices executed in fresh interpreters under two
PYTHONHASHSEED values, two worker counts and two batch orders, and again from replay files written
for them, must give identical event-log digests.   usage: determinism.py <prop> [n]   exit 0 ok / 2 mismatch"""
import json
import os
import subprocess
import sys

VERIF = os.path.dirname(os.path.dirname(os.path.abspath(__file__)))


def run(prop, n, hashseed, jobs, reverse, via_file=False):
    env = dict(os.environ, VERIF_HASHSEED=str(hashseed), VERIF_JOBS=str(jobs))
    if via_file:
        env['VERIF_DIGEST_VIA_FILE'] = '1'
    env.pop('PYTHONHASHSEED', None)
    cmd = [sys.executable, os.path.join(VERIF, 'bin', 'check.py'), prop, '--digests', str(n)]
    if reverse:
        cmd.append('--reverse')
    out = subprocess.run(cmd, env=env, capture_output=True, text=True, timeout=3600)
    for ln in out.stdout.splitlines():
        if ln.startswith('DIGESTS '):
            return json.loads(ln[8:])
    raise SystemExit('no digests from %r:\n%s\n%s' % (cmd, out.stdout[-2000:], out.stderr[-2000:]))


def main():
    prop = sys.argv[1]
    n = int(sys.argv[2]) if len(sys.argv) > 2 else 200
    a = run(prop, n, 0, 16, False)
    b = run(prop, n, 12345, 5, True)
    bad = 0
    for scen in a:
        for i in a[scen]:
            if a[scen][i] != b[scen].get(i):
                bad += 1
                if bad <= 5:
                    print('MISMATCH %s run %s: %r vs %r' % (scen, i, a[scen][i], b[scen].get(i)))
    # third leg: a sample of the same runs executed from replay files (JSON round trip of the case, one run per
    # forked child)
    m = min(n, 80)
    c = run(prop, m, 777, 16, False, via_file=True)
    for scen in c:
        for i in c[scen]:
            if a[scen].get(i) != c[scen][i]:
                bad += 1
                if bad <= 8:
                    print('MISMATCH (from file) %s run %s: %r vs %r' % (scen, i, a[scen].get(i), c[scen][i]))
    errs = sum(1 for scen in a for i in a[scen] if str(a[scen][i][0]).startswith('ERR'))
    print('determinism %s: %d runs x 2 (hashseed 0/12345, jobs 16/5, forward/reverse batches; %d of them again from replay files): %d mismatches, %d errored'
          % (prop, sum(len(a[s]) for s in a), sum(len(c[s]) for s in c), bad, errs))
    return 2 if bad else 0


if __name__ == '__main__':
    sys.exit(main())
