#!/venv/bin/python
"""Run the checks against the independently written breaking changes kept under /verif/seeded/.

Each seeded/<id>/ holds patch.diff (against /repo), a demonstration and meta.json {"property": "Cxx", ...}.
The patch is applied to a scratch copy of /repo/billiard (under /var/tmp, removed afterwards) and the
property's check runs against that copy (BILLIARD_SRC), exactly as it runs against /repo.

usage: seeded.py [id ...] [--budget=S] [--tier=quick|thorough] [--patch=FILE --prop=Cxx]
exit 0 = every seeded change was reported as a violation; exit 1 = at least one was missed."""
import json
import os
import shutil
import subprocess
import sys
import tempfile

VERIF = os.path.dirname(os.path.dirname(os.path.abspath(__file__)))
SEEDED = os.path.join(VERIF, 'seeded')


def run_patch(patch, prop, budget, tier):
    d = tempfile.mkdtemp(prefix='billiard-verif-seed-', dir='/var/tmp')
    try:
        shutil.copytree('/repo/billiard', os.path.join(d, 'billiard'), ignore=shutil.ignore_patterns('__pycache__'))
        r = subprocess.run(['patch', '-p1', '-s', '-d', d, '-i', patch], capture_output=True, text=True)
        if r.returncode != 0:
            return 'NOT-APPLICABLE (patch does not apply: %s)' % r.stdout.strip()[:160]
        subprocess.run([sys.executable, '-m', 'compileall', '-q', os.path.join(d, 'billiard')], check=True,
                       capture_output=True)
        env = dict(os.environ, BILLIARD_SRC=d)
        cmd = [sys.executable, os.path.join(VERIF, 'bin', 'check.py'), prop, '--tier', tier, '--no-evidence']
        if budget:
            cmd += ['--budget', str(budget)]
        out = subprocess.run(cmd, env=env, capture_output=True, text=True, timeout=7200)
        sigs = [ln.split('signature=')[1].split()[0] for ln in out.stdout.splitlines() if 'signature=' in ln]
        if out.returncode == 1:
            return 'CAUGHT ' + ','.join(sigs[:4])
        return 'MISSED (exit %d) %s' % (out.returncode, out.stderr.strip()[-200:] if out.returncode else '')
    finally:
        shutil.rmtree(d, ignore_errors=True)


def main():
    names = [a for a in sys.argv[1:] if not a.startswith('--')]
    opts = dict(a[2:].split('=', 1) for a in sys.argv[1:] if a.startswith('--') and '=' in a)
    budget = float(opts['budget']) if 'budget' in opts else None
    tier = opts.get('tier', 'quick')
    if 'patch' in opts:
        for prop in opts['prop'].split(','):
            print('%-30s %-4s %s' % (os.path.basename(os.path.dirname(opts['patch'])), prop,
                                      run_patch(opts['patch'], prop, budget, tier)), flush=True)
        return 0
    names = names or sorted(n for n in os.listdir(SEEDED) if os.path.isdir(os.path.join(SEEDED, n)))
    missed = 0
    for n in names:
        with open(os.path.join(SEEDED, n, 'meta.json')) as f:
            meta = json.load(f)
        for prop in [meta['property']] + list(meta.get('also_check', [])):
            v = run_patch(os.path.join(SEEDED, n, 'patch.diff'), prop, budget, tier)
            if meta.get('status') == 'neutralised':
                # a repair made to /repo since has closed the window this change needed: it no longer breaks
                # the property on the repaired tree (see meta.json / DESIGN.md), so silence is the right answer
                v = 'NEUTRALISED-BY-REPAIR (%s)' % v.split()[0]
            elif meta.get('status') == 'out-of-model' and not v.startswith('CAUGHT'):
                # a recorded, explained miss (meta.json: why_not_detected); listed as such in DESIGN.md
                v = 'NOT-DETECTED, outside the model (%s)' % v.split()[0]
            print('%-46s %-4s %s' % (n, prop, v), flush=True)
            if prop == meta['property'] and not v.startswith(('CAUGHT', 'NEUTRALISED', 'NOT-DETECTED, outside')):
                missed += 1
    print('%d seeded change(s), %d missed' % (len(names), missed))
    return 1 if missed else 0


if __name__ == '__main__':
    sys.exit(main())
