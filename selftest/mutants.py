#!/venv/bin/python
"""Sensitivity self-test: apply small, compiling mutants to a scratch copy of /repo
(under /var/tmp, removed afterwards) and confirm the property's quick check reports a
violation.   usage: mutants.py [name ...] [--budget S]   (no names = whole catalogue)"""
import json
import os
import shutil
import subprocess
import sys
import tempfile

VERIF = os.path.dirname(os.path.dirname(os.path.abspath(__file__)))

# name -> (property, file, old, new)
CATALOGUE = {
    'sync-notify-no-rezero': ('C17', 'billiard/synchronize.py',
                              "            # rezero _wait_semaphore in case a timeout just happened\n            self._wait_semaphore.acquire(False)\n",
                              "            pass\n"),
    'sync-notify-no-reconcile': ('C17', 'billiard/synchronize.py',
                                 "        # to take account of timeouts since last notify() we subtract\n        # woken_count from sleeping_count and rezero woken_count\n        while self._woken_count.acquire(False):\n            res = self._sleeping_count.acquire(False)\n            assert res\n\n        if self._sleeping_count",
                                 "        if self._sleeping_count"),
    'sync-event-set-no-notify': ('C17', 'billiard/synchronize.py',
                                 "            self._flag.release()\n            self._cond.notify_all()\n",
                                 "            self._flag.release()\n            self._cond.notify()\n"),
    'sync-bounded-unbounded': ('C17', 'billiard/synchronize.py',
                               "        SemLock.__init__(self, SEMAPHORE, value, value, ctx=ctx)",
                               "        SemLock.__init__(self, SEMAPHORE, value, value + 1, ctx=ctx)"),
    'conn-recv-eof-mid-message': ('C13', 'billiard/connection.py',
                                  "                    if remaining == size:\n                        raise EOFError\n                    else:\n                        raise OSError(\"got end of file during message\")",
                                  "                    if remaining == size:\n                        raise EOFError\n                    else:\n                        break"),
    'conn-send-ignores-short-write': ('C13', 'billiard/connection.py',
                                      "                remaining -= n\n                if remaining == 0:\n                    break\n                buf = buf[n:]",
                                      "                remaining -= n\n                if remaining == 0 or n > 4096:\n                    break\n                buf = buf[n:]"),
    'conn-maxlength-off-by-one': ('C13', 'billiard/connection.py',
                                  "        if maxsize is not None and size > maxsize:",
                                  "        if maxsize is not None and size > maxsize + 1:"),
    'conn-threshold-header-lost': ('C13', 'billiard/connection.py',
                                   "        if n > 16384:\n",
                                   "        if n > 16384 and n != 16385:\n            self._send(buf)\n        elif n > 16384:\n"),
    'auth-digest-prefix-compare': ('C18', 'billiard/connection.py',
                                   "    if response == digest:\n        connection.send_bytes(WELCOME)",
                                   "    if response and digest.startswith(response):\n        connection.send_bytes(WELCOME)"),
    'auth-client-skips-deliver': ('C18', 'billiard/connection.py',
                                  "        answer_challenge(c, authkey)\n        deliver_challenge(c, authkey)\n\n    return c",
                                  "        answer_challenge(c, authkey)\n        if len(authkey) < 64:\n            deliver_challenge(c, authkey)\n\n    return c"),
    'auth-welcome-prefix': ('C18', 'billiard/connection.py',
                            "    if response != WELCOME:\n        raise AuthenticationError('digest sent was rejected')",
                            "    if not response.startswith(WELCOME[:4]):\n        raise AuthenticationError('digest sent was rejected')"),
    'auth-static-challenge': ('C18', 'billiard/connection.py',
                              "    message = os.urandom(MESSAGE_LENGTH)\n    connection.send_bytes(CHALLENGE + message)",
                              "    message = _STATIC if '_STATIC' in globals() else globals().setdefault('_STATIC', os.urandom(MESSAGE_LENGTH))\n    connection.send_bytes(CHALLENGE + message)"),
    'auth-str-key-encoded': ('C18', 'billiard/connection.py',
                             "    if authkey is not None and not isinstance(authkey, bytes):\n        raise TypeError('authkey should be a byte string')\n\n    if authkey is not None:\n        answer_challenge",
                             "    if isinstance(authkey, str):\n        authkey = authkey.encode()\n    if authkey is not None and not isinstance(authkey, bytes):\n        raise TypeError('authkey should be a byte string')\n\n    if authkey is not None:\n        answer_challenge"),
    'conn-into-buffer-check': ('C13', 'billiard/connection.py',
                               "            if bytesize < offset + size:",
                               "            if bytesize < size:"),
}


def _load_extra():
    """selftest/mutants.d/*.json: {name: [property, file, old, new]}"""
    d = os.path.join(VERIF, 'selftest', 'mutants.d')
    if os.path.isdir(d):
        for fn in sorted(os.listdir(d)):
            if fn.endswith('.json'):
                with open(os.path.join(d, fn)) as f:
                    for name, v in json.load(f).items():
                        CATALOGUE[name] = tuple(v)


_load_extra()


def run(name, budget):
    prop, rel, old, new = CATALOGUE[name]
    d = tempfile.mkdtemp(prefix='billiard-verif-mut-', dir='/var/tmp')
    try:
        shutil.copytree('/repo/billiard', os.path.join(d, 'billiard'),
                        ignore=shutil.ignore_patterns('__pycache__'))
        if rel == 'REVERT':
            # undo one of our own "fix:" commits: the defect must come back.  selftest/mkreverts.py keeps a
            # forward patch per entry (git revert on top of the current HEAD, merged three-way)
            patch = os.path.join(VERIF, 'selftest', 'reverts', name + '.patch')
            if not os.path.exists(patch):
                return name, prop, 'NOT-APPLICABLE (no %s; run selftest/mkreverts.py)' % os.path.basename(patch)
            r = subprocess.run(['patch', '-p1', '-s', '-d', d, '-i', patch], capture_output=True, text=True)
            if r.returncode != 0:
                return name, prop, 'NOT-APPLICABLE (%s does not apply; run selftest/mkreverts.py: %s)' % (
                    os.path.basename(patch), r.stdout.strip()[:120])
            p = os.path.join(d, 'billiard', 'pool.py')
        else:
            p = os.path.join(d, rel)
            s = open(p).read()
            if old not in s:
                return name, prop, 'NOT-APPLICABLE (pattern not found)'
            open(p, 'w').write(s.replace(old, new, 1))
        subprocess.run([sys.executable, '-m', 'py_compile', p], check=True)
        env = dict(os.environ, BILLIARD_SRC=d)
        env.setdefault('VERIF_MINIMISE_S', '8')
        out = subprocess.run([sys.executable, os.path.join(VERIF, 'bin', 'check.py'), prop, '--tier', 'quick',
                              '--budget', str(budget), '--no-evidence'],
                             env=env, capture_output=True, text=True, timeout=1800)
        sigs = [ln.split('signature=')[1].split()[0] for ln in out.stdout.splitlines() if 'signature=' in ln]
        verdict = 'CAUGHT' if out.returncode == 1 else 'MISSED (exit %d)' % out.returncode
        if out.returncode != 1 and rel == 'REVERT' and str(new).startswith('neutralised'):
            # the defect this commit repaired can no longer occur because a later repair closed its window
            # (reason in selftest/mutants.d/reverts.json); silence is the right answer
            verdict = 'NEUTRALISED-BY-LATER-REPAIR (exit %d)' % out.returncode
        return name, prop, '%s %s' % (verdict, ','.join(sigs[:4]))
    finally:
        shutil.rmtree(d, ignore_errors=True)
        # replays written for mutants are not evidence of anything on the real tree
        rd = os.path.join(VERIF, 'replays')


def main():
    args = [a for a in sys.argv[1:] if not a.startswith('--')]
    budget = 15
    for a in sys.argv[1:]:
        if a.startswith('--budget'):
            budget = float(a.split('=')[1])
    names = args or sorted(CATALOGUE)
    res = []
    for n in names:
        r = run(n, budget)
        print('%-34s %-4s %s' % r, flush=True)
        res.append(r)
    missed = [r for r in res if not r[2].startswith(('CAUGHT', 'NEUTRALISED'))]
    print('%d mutants, %d caught, %d not caught' % (len(res), len(res) - len(missed), len(missed)))
    return 1 if missed else 0


if __name__ == '__main__':
    sys.exit(main())
