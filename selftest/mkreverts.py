#!/venv/bin/python
"""(Re)generate the revert-mutants: for every entry of mutants.d/reverts.json undo the named "fix:" commits on
top of the current /repo HEAD (git revert --no-commit in a scratch clone, so that later commits touching the
same lines are merged three-way) and save the result as a forward patch selftest/reverts/<name>.patch.

Run after every new "fix:" commit.  Entries whose revert conflicts are reported; they need a hand-made patch
(kept if it already exists and still applies)."""
import json
import os
import shutil
import subprocess
import sys

VERIF = os.path.dirname(os.path.dirname(os.path.abspath(__file__)))
OUT = os.path.join(VERIF, 'selftest', 'reverts')


def git(*a, cwd):
    return subprocess.run(('git',) + a, cwd=cwd, capture_output=True, text=True)


def main():
    with open(os.path.join(VERIF, 'selftest', 'mutants.d', 'reverts.json')) as f:
        ents = json.load(f)
    scratch = '/var/tmp/billiard-verif-revert'
    shutil.rmtree(scratch, ignore_errors=True)
    subprocess.run(['git', 'clone', '-q', '/repo', scratch], check=True)
    git('config', 'user.email', 'x@x', cwd=scratch)
    git('config', 'user.name', 'x', cwd=scratch)
    order = git('log', '--format=%h', cwd=scratch).stdout.split()
    bad = 0
    for name, (prop, _kind, commits, _x) in sorted(ents.items()):
        git('reset', '-q', '--hard', 'HEAD', cwd=scratch)
        git('clean', '-fdq', cwd=scratch)
        cs = sorted(commits, key=lambda c: next((i for i, h in enumerate(order) if h.startswith(c) or c.startswith(h)),
                                                1 << 30))
        ok = True
        for c in cs:                      # newest first
            r = git('revert', '--no-commit', c, cwd=scratch)
            if r.returncode != 0:
                ok = False
                git('revert', '--abort', cwd=scratch)
                break
        path = os.path.join(OUT, name + '.patch')
        if ok:
            d = git('diff', 'HEAD', cwd=scratch).stdout
            with open(path, 'w') as f:
                f.write(d)
            print('%-40s %s ok (%d lines)' % (name, prop, d.count('\n')))
        else:
            keep = os.path.exists(path) and git('apply', '--check', path, cwd='/repo').returncode == 0
            print('%-40s %s CONFLICT%s' % (name, prop, ' (existing hand-made patch still applies)' if keep else ''))
            if not keep:
                bad += 1
    shutil.rmtree(scratch, ignore_errors=True)
    return 1 if bad else 0


if __name__ == '__main__':
    sys.exit(main())
