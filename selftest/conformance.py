#!/venv/bin/python
"""Stub conformance: the simulated primitives against the real ones on this machine.

 1. SimSemLock vs _multiprocessing.SemLock on random non-blocking call sequences (values,
    ValueError/AssertionError, _count, _is_mine, _get_value, _is_zero), from one thread.
 2. simulated pipe vs os.pipe in non-blocking mode (byte counts, EAGAIN, EOF, EPIPE).
 3. wait-status encoding vs real forked children (exit codes, fatal signals).
    (sizes are page multiples: Linux accounts pipe capacity in page slots, the model in bytes; any
    short count is legal for both, so only page-aligned traffic is comparable call by call)
exit 0 = all agree; exit 1 = a disagreement (printed)."""
import _multiprocessing
import errno
import os
import random
import signal
import sys

VERIF = os.path.dirname(os.path.dirname(os.path.abspath(__file__)))
sys.path.insert(0, VERIF)
sys.path.insert(0, os.environ.get('BILLIARD_SRC', '/repo'))

from simos import state                      # noqa: E402
from simos.kernel import Kernel              # noqa: E402
from simos.objects import SimSemLock         # noqa: E402

fails = []


def in_actor(k, fn):
    out = {}

    def main():
        out['r'] = fn()
    k.spawn_actor(k.root, main, 'P0.user', main=True)
    k.run()
    k.shutdown()
    return out.get('r')


def semlock_sequences(n_seq=400, seed=1):
    rng = random.Random(seed)
    for s in range(n_seq):
        kind = rng.choice([0, 1])
        maxv = 1 if kind == 0 else rng.choice([1, 2, 3, 5])
        val = rng.randint(0, maxv)
        if kind == 0:
            val = 1
        name = '/cf-%d-%d' % (os.getpid(), s)
        real = _multiprocessing.SemLock(kind, val, maxv, name, True)
        ops = [rng.choice(['acq', 'acq', 'rel', 'count', 'mine', 'value', 'zero', 'acq_t0', 'acq_neg'])
               for _ in range(rng.randint(3, 14))]

        def run(obj):
            res = []
            for op in ops:
                try:
                    if op == 'acq':
                        res.append(('acq', obj.acquire(False)))
                    elif op == 'acq_t0':
                        res.append(('acq_t0', obj.acquire(True, 0)))
                    elif op == 'acq_neg':
                        res.append(('acq_neg', obj.acquire(True, -1.0)))
                    elif op == 'rel':
                        obj.release()
                        res.append(('rel', None))
                    elif op == 'count':
                        res.append(('count', obj._count()))
                    elif op == 'mine':
                        res.append(('mine', obj._is_mine()))
                    elif op == 'value':
                        res.append(('value', obj._get_value()))
                    elif op == 'zero':
                        res.append(('zero', obj._is_zero()))
                except (ValueError, AssertionError) as e:
                    res.append((op, type(e).__name__))
            return res
        want = run(real)
        k = Kernel(random.Random(0), 'fifo', None, {})
        state.K = k
        got = in_actor(k, lambda: run(SimSemLock(kind, val, maxv, None, True)))
        if want != got:
            fails.append(('semlock', kind, val, maxv, ops, want, got))
            if len(fails) > 5:
                return


def pipe_sequences(n_seq=300, seed=2):
    rng = random.Random(seed)
    for s in range(n_seq):
        ops = []
        for _ in range(rng.randint(2, 12)):
            r = rng.random()
            if r < 0.45:
                ops.append(('w', rng.choice([0, 4096, 8192, 65536, 69632])))
            elif r < 0.85:
                ops.append(('r', rng.choice([4096, 8192, 131072])))
            elif r < 0.93:
                ops.append(('close_w',))
            else:
                ops.append(('close_r',))

        def run(pipe, read, write, close, setnb):
            r, w = pipe()
            setnb(r)
            setnb(w)
            res = []
            open_r = open_w = True
            for op in ops:
                try:
                    if op[0] == 'w' and open_w:
                        res.append(('w', write(w, b'x' * op[1])))
                    elif op[0] == 'r' and open_r:
                        res.append(('r', len(read(r, op[1]))))
                    elif op[0] == 'close_w' and open_w:
                        close(w)
                        open_w = False
                    elif op[0] == 'close_r' and open_r:
                        close(r)
                        open_r = False
                except BlockingIOError:
                    res.append((op[0], 'EAGAIN'))
                except BrokenPipeError:
                    res.append((op[0], 'EPIPE'))
            if open_r:
                close(r)
            if open_w:
                close(w)
            return res
        old = signal.signal(signal.SIGPIPE, signal.SIG_IGN)
        try:
            want = run(os.pipe, os.read, os.write, os.close, lambda fd: os.set_blocking(fd, False))
        finally:
            signal.signal(signal.SIGPIPE, old)
        k = Kernel(random.Random(0), 'fifo', None, {'pipe_cap': 65536})
        state.K = k
        got = in_actor(k, lambda: run(k.pipe, k.read, k.write, k.close, lambda fd: k.set_nonblock(fd, True)))
        if want != got:
            fails.append(('pipe', ops, want, got))
            if len(fails) > 5:
                return


def wait_statuses():
    cases = [('exit', 0), ('exit', 1), ('exit', 3), ('exit', 155), ('exit', 255), ('exit', 256 + 7), ('exit', -241),
             ('signal', signal.SIGKILL), ('signal', signal.SIGTERM), ('signal', signal.SIGSEGV),
             ('signal', signal.SIGABRT), ('signal', signal.SIGUSR1)]
    for kind, n in cases:
        pid = os.fork()
        if pid == 0:
            if kind == 'exit':
                os._exit(n)
            signal.signal(n, signal.SIG_DFL) if n != signal.SIGKILL else None
            os.kill(os.getpid(), n)
            os._exit(99)
        _, sts = os.waitpid(pid, 0)
        k = Kernel(random.Random(0), 'fifo', None, {})
        state.K = k

        def sim():
            def child():
                if kind == 'exit':
                    k.exit_now(n)
                k.post_signal(k.cur_proc_obj(), n, 'self')
                k.yield_('x')
            c = k.create_process('c', child)
            return k.waitpid(c.pid, 0)[1]
        got = in_actor(k, sim)
        if got != (sts & 0xff7f):       # ignore the core-dump flag
            fails.append(('wait-status', kind, int(n), sts, got))


def main():
    semlock_sequences()
    pipe_sequences()
    wait_statuses()
    for f in fails[:8]:
        print('DISAGREEMENT', f)
    print('conformance: semlock 400 sequences, pipe 300 sequences, 12 wait statuses: %d disagreement(s)' % len(fails))
    return 1 if fails else 0


if __name__ == '__main__':
    sys.exit(main())
