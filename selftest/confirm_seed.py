#!/venv/bin/python
"""Confirm an independently written breaking change before it is kept under /verif/seeded/:
  - the patch applies to a scratch worktree of /repo,
  - the demonstration fails with it and passes without it,
  - the repository's unit tests still pass with it.
usage: confirm_seed.py <worktree> <dir with patch.diff and demo.py>      (prints a JSON summary)"""
import json
import os
import subprocess
import sys

PY = '/venv/bin/python'


def sh(cmd, cwd=None, env=None, timeout=1200):
    try:
        r = subprocess.run(cmd, cwd=cwd, env=env, capture_output=True, text=True, timeout=timeout)
        return r.returncode, (r.stdout + r.stderr)
    except subprocess.TimeoutExpired:
        return 124, 'timeout'


def main():
    wt, d = sys.argv[1], sys.argv[2]
    patch = os.path.join(d, 'patch.diff')
    demo = os.path.join(d, 'demo.py')
    out = {}
    sh(['git', '-C', wt, 'checkout', '--', '.'])
    rc, o = sh(['git', '-C', wt, 'apply', patch])
    out['applies'] = rc == 0
    if rc:
        out['apply_error'] = o[-300:]
        print(json.dumps(out, indent=1))
        return 1
    env_wt = dict(os.environ, PYTHONPATH=wt)
    env_repo = dict(os.environ, PYTHONPATH='/repo')
    rc1, o1 = sh([PY, demo], cwd=d, env=env_wt, timeout=180)
    out['demo_with_patch'] = rc1
    out['demo_with_patch_tail'] = o1.strip().splitlines()[-3:]
    # (test_on_ready_counter_is_synchronized gives a spawn-context worker one second to start: under load it
    # fails or hangs on the unchanged tree too; it is run apart, with a short leash, and reported separately)
    flaky = 't/unit/test_pool.py::test_pool::test_on_ready_counter_is_synchronized'
    rc, o = sh([PY, '-m', 'pytest', '-q', '-p', 'no:cacheprovider', '--timeout=180', '--deselect', flaky, 't/unit'],
               cwd=wt, env=env_wt, timeout=600)
    rcf, of = sh(['timeout', '-k', '5', '90', PY, '-m', 'pytest', '-q', '-p', 'no:cacheprovider', flaky], cwd=wt, env=env_wt,
                 timeout=120)
    out['flaky_test_rc'] = rcf
    out['tests_rc'] = rc
    out['tests_tail'] = o.strip().splitlines()[-1:]
    out['tests_failed'] = [ln for ln in o.splitlines() if ln.startswith('FAILED')]
    sh(['git', '-C', wt, 'checkout', '--', '.'])
    rc2, o2 = sh([PY, demo], cwd=d, env=env_repo, timeout=180)
    out['demo_without_patch'] = rc2
    out['demo_without_patch_tail'] = o2.strip().splitlines()[-2:]
    out['confirmed'] = rc1 != 0 and rc2 == 0 and rc == 0
    print(json.dumps(out, indent=1))
    return 0 if out['confirmed'] else 1


if __name__ == '__main__':
    sys.exit(main())
