#!/venv/bin/python
"""Seed robustness: a check must stay quiet on the unchanged tree for every base seed, not only the default.

Runs the quick tier of each property under several VERIF_SEED values in survey mode (signatures only, no
minimisation) and lists the signatures that are the property's own and not covered by known_findings.json -
each of those is either a genuine defect or a false alarm and has to be triaged.  Raw cases of such
signatures are written to /var/tmp/survey/<prop>/ for replay (bin/check.py <prop> --replay <file>).

usage: survey.py [--seeds=1,2,3] [--budget=S] [--tier=quick] [Cxx ...]     exit 0 = nothing to triage"""
import os
import subprocess
import sys

VERIF = os.path.dirname(os.path.dirname(os.path.abspath(__file__)))


def main():
    props = [a for a in sys.argv[1:] if not a.startswith('--')] or ['C%02d' % i for i in range(1, 21)]
    opts = dict(a[2:].split('=', 1) for a in sys.argv[1:] if a.startswith('--') and '=' in a)
    seeds = [int(s) for s in opts.get('seeds', '1,2,3').split(',')]
    tier = opts.get('tier', 'quick')
    todo = {}
    for p in props:
        for s in seeds:
            sd = '/var/tmp/survey/%s' % p
            env = dict(os.environ, VERIF_SEED=str(s), VERIF_SURVEY_DIR=sd)
            cmd = [sys.executable, os.path.join(VERIF, 'bin', 'check.py'), p, '--tier', tier, '--survey', '--no-evidence']
            if 'budget' in opts:
                cmd += ['--budget', opts['budget']]
            try:
                out = subprocess.run(cmd, env=env, capture_output=True, text=True, timeout=3600)
            except subprocess.TimeoutExpired:
                print('%s seed=%d TIMEOUT' % (p, s), flush=True)
                todo.setdefault(p, set()).add('timeout')
                continue
            own = [ln for ln in out.stdout.splitlines() if ln.startswith('SURVEY       ')]
            summ = [ln for ln in out.stdout.splitlines() if ' runs, ' in ln and 'wall' in ln]
            print('%s seed=%d rc=%d %s' % (p, s, out.returncode, summ[-1] if summ else out.stderr.strip()[-200:]), flush=True)
            for ln in own:
                print('   ' + ln[:260], flush=True)
                todo.setdefault(p, set()).add(ln.split()[1])
            if 'harness error' in (summ[-1] if summ else '') and ' 0 harness errors' not in summ[-1]:
                todo.setdefault(p, set()).add('harness-errors')
    print('to triage: %s' % ({p: sorted(v) for p, v in todo.items()} or 'nothing'))
    return 1 if todo else 0


if __name__ == '__main__':
    sys.exit(main())
