#!/venv/bin/python
"""Markdown tables of DESIGN.md 12.8 / 12.9 from the output of selftest/seeded.py.

usage: seeded_table.py RESULTS.txt  (the captured stdout of `selftest/seeded.py`)"""
import json
import os
import sys

VERIF = os.path.dirname(os.path.dirname(os.path.abspath(__file__)))
SEEDED = os.path.join(VERIF, 'seeded')


def main():
    res = {}
    with open(sys.argv[1]) as f:
        for ln in f:
            parts = ln.split(None, 2)
            if len(parts) == 3 and os.path.isdir(os.path.join(SEEDED, parts[0])):
                res.setdefault(parts[0], []).append((parts[1], parts[2].strip()))
    for rnd in (1, 2):
        print('\n| seeded change | property | needs to manifest | quick check |\n|---|---|---|---|')
        for n in sorted(os.listdir(SEEDED)):
            mp = os.path.join(SEEDED, n, 'meta.json')
            if not os.path.exists(mp):
                continue
            with open(mp) as f:
                meta = json.load(f)
            if meta.get('round', 1) != rnd:
                continue
            out = []
            for prop, v in res.get(n, []):
                if v.startswith('CAUGHT'):
                    sigs = v.split(None, 1)[1].split(',')[:2] if ' ' in v else []
                    out.append('caught: ' + ', '.join('`%s`' % s for s in sigs))
                elif v.startswith('NEUTRALISED'):
                    out.append('quiet on the repaired tree (repair %s closed the window); before the repair: %s'
                               % (meta.get('neutralised_by', '?'), meta.get('caught_before_the_repair_as', '?')))
                elif v.startswith('NOT-DETECTED'):
                    out.append('**not detected**, outside the model: %s' % meta.get('why_not_detected', ''))
                else:
                    out.append('**MISSED** ' + v[:60])
            print('| %s | %s | %s | %s |' % (n, meta['property'], meta.get('needs_to_manifest', ''),
                                             '; '.join(out) or 'not run'))


if __name__ == '__main__':
    main()
